#!/usr/bin/env python3
"""write /verif/seeded/<id>/meta.json  (usage: seed_meta.py <dir> <property> <json-with-fields>)"""
import json, os, sys
d, prop, extra = sys.argv[1], sys.argv[2], json.loads(sys.argv[3])
base = os.path.join("/verif/seeded", d)
confirm = open(os.path.join(base, "confirm.txt")).read() if os.path.isfile(os.path.join(base, "confirm.txt")) else None
meta = {"property": prop, "author": "independent sub-agent given only the property text and a scratch worktree",
        "patch": "patch.diff", "demonstration": "seeded_demo.rs"}
meta.update(extra)
if confirm:
    meta["confirmed_by_me"] = confirm.strip().split("\n")
json.dump(meta, open(os.path.join(base, "meta.json"), "w"), indent=1)
print("ok", base)
