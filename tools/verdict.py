"""Obligation table -> verdict, known-finding matching, evidence + replay files."""
import json
import os
import subprocess
import sys
import time

import kani_run
import props
import verus_run
import witness_run


def load_known(root):
    p = os.path.join(root, "known_findings.json")
    if not os.path.isfile(p):
        return {"findings": [], "fixed": []}
    with open(p) as f:
        return json.load(f)


def _write(path, obj):
    os.makedirs(os.path.dirname(path), exist_ok=True)
    with open(path, "w") as f:
        json.dump(obj, f, indent=1, sort_keys=False)


def run_property(pid, tier, seed, repo, root, t0):
    cfg = props.PROPS[pid]
    known = load_known(root)
    known_by_ob = {}
    for k in known["findings"]:
        if k["property"] == pid:
            for ob in k.get("obligations", [k["obligation"]] if "obligation" in k else []):
                known_by_ob.setdefault(ob, []).append(k)
    units = []          # per-unit result dicts
    undecided = []      # reasons
    # ------------------------------------------------------------------ generated inputs
    pre_notes = {}
    for hook in cfg.get("pre", []):
        try:
            pre_notes[hook] = props.PRE_HOOKS[hook](repo, root)
        except Exception as e:  # noqa
            undecided.append("pre-hook %s: %s" % (hook, e))
    # ------------------------------------------------------------------ Verus units
    witness_cache = {}
    soft_units = set()   # Verus units that could not be judged but whose bounded search completed without a failing input

    wgroup = [u for u in cfg.get("verus", []) if u in witness_run.WITNESS] + list(cfg.get("standin", []))

    def witness(u):
        if u not in witness_cache:
            witness_cache[u] = witness_run.run(u, repo, root, group=wgroup, tier=tier)
        return witness_cache[u]

    for u in cfg.get("verus", []):
        r = verus_run.run_unit(u, repo, root)
        units.append(r)
        if r["class"] == "undecided":
            # the deductive check cannot judge the current text (construct outside the verifier's subset, lost
            # anchor, ...): bounded stand-in — search for a failing input on the real code
            w = witness(u) if u in witness_run.WITNESS else {"status": "error", "detail": "no witness module"}
            r["witness"] = w
            if w.get("status") == "found":
                r.setdefault("obligations", []).append({
                    "name": "witness:%s" % u, "role": "carries", "backend": "bounded search on the real code (cargo test)",
                    "status": "failed", "bound": "bounded(%s)" % w.get("bound"), "text": "stand-in for verus:%s, which could not judge the current text (%s)" % (u, (r.get("reason") or "")[:160]),
                    "failing": [{"message": "failing input found on the real code", "text": w["detail"], "clause": None}], "witness": w})
            else:
                soft = "[explored] " if w.get("status") == "none" else ""
                if soft:
                    soft_units.add(u)
                undecided.append("%sverus:%s: %s [bounded witness search: %s %s]" % (soft, u, r.get("reason"), w.get("status"), w.get("detail", "")))
    vac = []
    if tier == "thorough":
        for u in cfg.get("verus", []):
            r = verus_run.run_unit(u, repo, root, vacuity=True)
            # every contracted repo fn must now FAIL
            bad = [o["name"] for o in r.get("obligations", []) if o["role"] == "carries" and o.get("from_repo", True)
                   and o["status"] != "failed" and o.get("vacuity", True)]
            vac.append({"unit": u, "class": r["class"], "not_failing": bad})
            exempt = set(cfg.get("vacuity_exempt", []))
            bad = [b for b in bad if b not in exempt]
            if r["class"] == "undecided" or bad:
                undecided.append("vacuity probe verus:%s did not fail for %s (%s)" % (u, bad, r.get("reason")))
    # ------------------------------------------------------------------ Kani units
    kunits = cfg.get("kani", [])
    inj = []
    if kunits:
        try:
            kani_run.sync(repo)
            inj = kani_run.inject(kunits, root, repo)
        except Exception as e:  # noqa
            undecided.append("kani scratch copy: %s" % e)
            kunits = []
    for u in kunits:
        r = kani_run.run_unit(u, root, tier, only=cfg.get("kani_only", {}).get(u))
        units.append(r)
        if r["class"] == "undecided":
            undecided.append("kani:%s: %s" % (u, r.get("reason")))
    # ------------------------------------------------------------------ bounded stand-ins (always run)
    for name in cfg.get("standin", []):
        w = witness(name)
        ob = {"name": "standin:%s" % name[len("standin_"):], "role": "carries", "backend": "bounded check on the real code (cargo test)",
              "bound": "bounded(%s)" % w.get("bound"), "text": "bounded stand-in for code outside both verifiers' reach: " + str(w.get("bound")),
              "solver_s": w.get("wall_s"), "witness": w}
        if w.get("status") == "none":
            ob["status"] = "discharged"; ob["detail"] = w.get("detail")
        elif w.get("status") == "found":
            ob["status"] = "failed"; ob["failing"] = [{"message": "failing input found on the real code", "text": w["detail"], "clause": None}]
        else:
            ob["status"] = "undecided"; ob["detail"] = w.get("detail")
        units.append({"unit": name, "backend": "standin", "obligations": [ob], "checker_cmd": w.get("cmd", ""), "class": "ok"})
    # ------------------------------------------------------------------ verdict
    obligations = [o for r in units for o in r.get("obligations", [])]
    by_name = {o["name"]: o for o in obligations}
    violations = []
    known_lines = []
    standins = [o for o in obligations if o["name"].startswith("standin:")]
    standins_ok = bool(standins) and all(o["status"] == "discharged" or known_by_ob.get(o["name"]) for o in standins)
    for o in obligations:
        if o["status"] == "undecided" or o["status"] == "unknown":
            # a verifier time-out / memory-out on the current text while the property's bounded stand-ins ran to
            # completion on the real code without a (new) failing input: "explored, nothing found"
            soft = "[explored] " if (standins_ok and o["name"].startswith("kani:")) else ""
            undecided.append("%s%s: %s" % (soft, o["name"], o.get("detail", "no result")))
    for o in obligations:
        if o["status"] != "failed":
            continue
        kfs = known_by_ob.get(o["name"], [])
        if kfs and any(k.get("cases") for k in kfs) and o.get("witness"):
            # findings on a bounded stand-in are identified by the failing CASES they list: any other failing
            # case of the same stand-in is a violation
            allf = o["witness"].get("found_all") or [o["witness"].get("detail", "")]
            unmatched = [f for f in allf if not any(c in f for k in kfs for c in k.get("cases", []))]
            for k in kfs:
                if any(c in f for f in allf for c in k.get("cases", [])):
                    k.setdefault("_hit", []).append(o["name"])
            if unmatched:
                o["witness"] = dict(o["witness"], detail=unmatched[0])
                o["failing"] = [{"message": "failing input found on the real code (not covered by a known finding)", "text": unmatched[0], "clause": None}]
                kfs = []
            else:
                kfs = [k for k in kfs if k.get("_hit")]
        if kfs:
            for kf in kfs:
                for rn in kf.get("residuals", []):
                    resid = by_name.get(rn)
                    if resid is None or resid["status"] != "discharged":
                        if resid is not None and resid["status"] == "failed":
                            pass  # the residual is itself reported as a violation below
                        else:
                            ru = rn[len("verus:"):].split("::", 1)[0] if rn.startswith("verus:") else None
                            undecided.append("%sresidual %s of known finding not discharged" % ("[explored] " if ru in soft_units else "", rn))
                if o["name"] not in kf.get("_hit", []):
                    kf.setdefault("_hit", []).append(o["name"])
            o["known_finding"] = "; ".join(k["id"] for k in kfs if "id" in k) or kfs[0]["what"]
            continue
        if o["role"] == "aux" and cfg.get("aux_failure", "violation") == "undecided":
            undecided.append("%s: auxiliary proof step failed (%s)" % (o["name"], _why(o)))
            continue
        if o["name"].startswith("verus:") and o.get("failing") and \
                not any("postcondition" in (e.get("message") or "") for e in o["failing"]):
            # only auxiliary proof steps failed (hint assertion, loop invariant, lemma precondition, overflow
            # side condition) — no contract clause.  That alone does not tell a broken function from a
            # restructured one: it is a VIOLATION only together with a failing input on the real code.
            unit = o["name"][len("verus:"):].split("::", 1)[0]
            if unit in witness_run.WITNESS:
                w = witness(unit)
                if w.get("status") == "none":
                    soft_units.add(unit)
                    undecided.append("[explored] %s: an auxiliary proof step fails (%s) but the bounded search on the real code (%s; %s) "
                                     "finds no failing input — the function was restructured or the contract needs rework"
                                     % (o["name"], _why(o), w.get("bound"), w.get("detail")))
                    o["status"] = "undecided"
                    continue
        violations.append(o)
    for kf in known["findings"]:
        if kf.get("_hit"):
            known_lines.append("KNOWN-FINDING: property=%s %s [failing as listed: %s]" % (pid, kf["what"], ", ".join(kf["_hit"])))
    unlisted = [e for r in units for e in r.get("unlisted_failures", [])]
    for e in unlisted:
        undecided.append("verus: failure in overlay-only lemma/fn `%s`: %s" % (e.get("fn"), e.get("message")))
    # ------------------------------------------------------------------ replay files for violations
    vio_lines = []
    for o in violations:
        safe = o["name"].replace(":", "_").replace("/", "_")
        path = os.path.join(root, "replay", pid, safe + ".json")
        rep = {"property": pid, "obligation": o["name"], "text": o.get("text"), "backend": o["backend"],
               "tier": tier, "repo": repo}
        suffix = ""
        if o["backend"].startswith("kani"):
            unit, harness = o["name"][len("kani:"):].split("::", 1)
            rep["failed_checks"] = o.get("failed_checks")
            cex, raw = kani_run.concrete_playback(unit, harness)
            if cex is None:
                rep["counterexample"] = None
                rep["verifier_output_tail"] = raw[-4000:]
                suffix = " no-failing-input-found"
            else:
                rep["counterexample"] = cex
                ok, msg = kani_run.replay_on_real_code(unit, harness, cex["bytes"], path)
                rep["replay_on_real_code"] = {"violated": ok, "message": msg,
                                              "cmd": "./check %s --replay %s" % (pid, path)}
                if ok is False:
                    # spurious (over-approximated intrinsic): not an alarm
                    undecided.append("%s: verifier counterexample does not reproduce on the real code (%s)" % (o["name"], msg))
                    _write(path, rep)
                    o["status"] = "undecided"
                    continue
                if ok is None:
                    suffix = " no-failing-input-found"
        elif o["name"].startswith("witness:") or o["name"].startswith("standin:"):
            rep["witness"] = o.get("witness")
            rep["failing_input"] = o["witness"]["detail"]
            rep["replay_cmd"] = "./check %s --replay %s" % (pid, path)
        else:
            rep["verifier_output"] = o.get("failing")
            unit = o["name"][len("verus:"):].split("::", 1)[0]
            if unit in witness_run.WITNESS:
                w = witness(unit)
                rep["witness"] = w
                if w.get("status") == "found":
                    rep["failing_input"] = w["detail"]
            ur = [r for r in units if r.get("unit") == unit and r["backend"] == "verus"]
            if ur:
                rep["checker_cmd"] = ur[0].get("checker_cmd")
                rep["changed_vs_contract_time"] = ur[0].get("extraction", {}).get("changed_vs_contract_time")
                try:
                    with open(ur[0]["generated_file"]) as f:
                        rep["generated_verus_text"] = f.read()
                except Exception:  # noqa
                    pass
            suffix = "" if rep.get("failing_input") else " no-failing-input-found"
        _write(path, rep)
        extra = ""
        if rep.get("failing_input") and not o["name"].startswith("witness:"):
            extra = " failing-input[bounded search on the real code]: " + str(rep["failing_input"])[:300]
        vio_lines.append("VIOLATION property=%s replay=%s obligation=%s (%s)%s%s" % (pid, path, o["name"], _why(o), extra, suffix))
    violations = [o for o in violations if o["status"] == "failed"]
    # ------------------------------------------------------------------ evidence
    carried = [o for o in obligations if o["role"] == "carries"]
    discharged = [o for o in obligations if o["status"] == "discharged"]
    wall = time.time() - t0
    trusted = list(cfg.get("trusted_base", []))
    for r in units:
        for h in r.get("extraction", {}).get("trusted_scan", []):
            trusted.append("verus:%s generated line %s" % (r["unit"], h))
    bounded = [{"name": o["name"], "bound": o["bound"], "status": o["status"]} for o in obligations if _is_bounded(o)]
    samples = [{"obligation": o["name"], "backend": o["backend"], "status": o["status"], "bound": o.get("bound"),
                "clause": o.get("text"), "solver_s": o.get("solver_s", (o.get("solver_ms") or 0) / 1000.0)}
               for o in obligations]
    cov = {
        # obligations that must hold on this tree; those suppressed by a committed known finding are
        # expected to fail and are counted separately
        # ... and BOUNDED obligations are never counted as proved: they are listed under `bounded`
        "obligations": len([o for o in obligations if not o.get("known_finding") and not _is_bounded(o)]),
        "discharged": len([o for o in discharged if not _is_bounded(o)]),
        "bounded_obligations": len([o for o in obligations if not o.get("known_finding") and _is_bounded(o)]),
        "bounded_discharged": len([o for o in discharged if _is_bounded(o)]),
        "expected_failing_known_findings": [o["name"] for o in obligations if o.get("known_finding")],
        "checker_cmd": " ; ".join(r.get("checker_cmd", "") for r in units),
        "trusted_base": trusted,
        "evaluations": len(obligations),
        "distinct_nontrivial": len({o["name"] for o in discharged}),
        "rule": "one case = one named obligation (a Verus function with its contract, or a Kani harness); "
                "non-trivial = discharged AND (Kani) its reachability cover was satisfied; names are unique",
        "samples": samples,
        "bounded": bounded,
        "known_findings_reported": known_lines,
        "functions_under_contract": cfg.get("functions_under_contract", []),
        "property_carrying_obligations": len(carried),
        "extraction": [{"unit": r["unit"], **{k: r["extraction"][k] for k in ("items", "changed_vs_contract_time", "substitutions", "dropped")}}
                       for r in units if "extraction" in r],
        "kani_injection": inj,
        "generated_inputs": pre_notes,
        "solver_time_s": round(sum((o.get("solver_s") or 0) + (o.get("solver_ms") or 0) / 1000.0 for o in obligations), 3),
        "vacuity_probes": vac,
        "undecided": undecided,
        "explanation": cfg.get("explanation", ""),
        "exhaustive": False,
    }
    level = cfg["level"]
    if level == "exploration":
        # bounded-only property: the counts that matter are the cases the stand-ins executed on the real code
        # (reported by the stand-in itself: enumerated histories / programs / rule sets, no repetition)
        ws = [o.get("witness") or {} for o in obligations if o["name"].startswith("standin:")]
        ncases = sum(int(w.get("cases") or 0) for w in ws)
        cov["evaluations"] = ncases
        cov["distinct_nontrivial"] = ncases
        cov["rule"] = ("BOUNDED-ONLY property: one case = one enumerated input of the stand-in (a history, program, rule set; the "
                       "enumeration has no repetition, so cases are distinct), counted by the stand-in itself while it runs; a case is "
                       "non-trivial because the real code is executed on it and every observation is compared with the contract's "
                       "value. Nothing is proved: obligations = discharged = 0.")
        cov["samples"] = [{"standin": o["name"], "status": o["status"], "bound": o.get("bound"), "cases_run": (o.get("witness") or {}).get("cases"),
                           "result": (o.get("witness") or {}).get("detail"), "known_finding": o.get("known_finding")} for o in obligations] or samples
    ev = {"property_id": pid, "tier": tier, "seed": seed, "level": level, "coverage": cov,
          "assumptions": cfg.get("assumptions", []), "wall_s": round(wall, 2), "violations": len(violations)}
    _write(os.path.join(root, "evidence", pid + ".json"), ev)
    # ------------------------------------------------------------------ report
    for o in obligations:
        print("  %-62s %-11s %s%s" % (o["name"], o["status"], o.get("bound") or "unbounded",
                                      "  [known finding]" if o.get("known_finding") else ""))
    for l in known_lines:
        print(l)
    if vio_lines:
        for l in vio_lines:
            print(l)
        return 1
    if undecided:
        for u in undecided:
            print("UNDECIDED: %s" % u)
        if all(u.startswith("[explored] ") for u in undecided):
            # the deductive unit could not judge the current text, but the bounded search on the real code ran
            # to completion and found nothing: "held on everything explored" — exit 0, the evidence file says
            # which obligations are undecided
            print("NO-VIOLATION-FOUND property=%s tier=%s (deductive check undecided for the current text; bounded search found nothing) wall=%.1fs" % (pid, tier, wall))
            return 0
        return 2
    print("OK property=%s tier=%s obligations=%d discharged=%d bounded=%d/%d%s known_findings=%d wall=%.1fs" % (
        pid, tier, cov["obligations"], cov["discharged"], cov["bounded_discharged"], cov["bounded_obligations"],
        " (BOUNDED ONLY: nothing proved)" if cov["obligations"] == 0 else "", len(known_lines), wall))
    return 0


def _is_bounded(o):
    b = o.get("bound")
    return bool(b) and "bounded" in str(b)


def _why(o):
    if o.get("failed_checks"):
        return "; ".join(o["failed_checks"])[:300]
    if o.get("witness"):
        return "failing input on the real code: " + o["witness"]["detail"][:300]
    if o.get("failing"):
        e = o["failing"][0]
        return ("%s at `%s`%s" % (e["message"], e["text"][:120], (" clause `%s`" % e["clause"][:120]) if e.get("clause") else ""))
    return "failed"


def replay(pid, path, repo, root):
    """Re-run the obligation named in a replay file against the current tree."""
    path = os.path.abspath(path)
    with open(path) as f:
        rep = json.load(f)
    name = rep["obligation"]
    print("replaying %s" % name)
    if name.startswith("kani:") and rep.get("counterexample"):
        unit, harness = name[len("kani:"):].split("::", 1)
        kani_run.sync(repo)
        kani_run.inject([unit], root, repo)
        ok, msg = kani_run.replay_on_real_code(unit, harness, rep["counterexample"]["bytes"], path)
        print("real code violated=%s: %s" % (ok, msg))
        if ok:
            print("VIOLATION property=%s replay=%s" % (pid, path))
            return 1
        return 0 if ok is False else 2
    if name.startswith("witness:") or name.startswith("standin:") or (name.startswith("verus:") and rep.get("failing_input")):
        unit = name.split(":", 1)[1].split("::", 1)[0]
        if name.startswith("standin:"):
            unit = "standin_" + unit
        w = witness_run.run(unit, repo, root)
        print("bounded witness search on the real code: %s %s" % (w.get("status"), w.get("detail")))
        if w.get("status") == "found":
            print("VIOLATION property=%s replay=%s" % (pid, path))
            return 1
        return 0 if w.get("status") == "none" else 2
    if name.startswith("verus:"):
        unit = name[len("verus:"):].split("::", 1)[0]
        r = verus_run.run_unit(unit, repo, root)
        bad = [o for o in r.get("obligations", []) if o["name"] == name and o["status"] == "failed"]
        for o in bad:
            print(json.dumps(o["failing"], indent=1))
        if bad:
            print("VIOLATION property=%s replay=%s no-failing-input-found" % (pid, path))
            return 1
        return 0 if r["class"] == "ok" else 2
    print("nothing to replay")
    return 2
