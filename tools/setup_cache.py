"""setup: warm the Kani target dir (dependencies of the inputlayer crate) so that checks only rebuild the crate."""
import os, subprocess, sys
sys.path.insert(0, os.path.dirname(os.path.abspath(__file__)))
import kani_run
ROOT = os.path.dirname(os.path.dirname(os.path.abspath(__file__)))
os.makedirs("/var/tmp/ilverif", exist_ok=True)
kani_run.sync("/repo")
p = os.path.join(kani_run.WORK, "src/lib.rs")
with open(p, "a") as f:
    f.write("\n#[cfg(kani)]\nmod verif_warm { #[kani::proof] fn warm() { let x: u8 = kani::any(); assert!(x as u16 <= 255); } }\n")
env = dict(os.environ, CARGO_NET_OFFLINE="true")
r = subprocess.run(["cargo", "kani", "--lib", "--target-dir", kani_run.KANI_TARGET, "--harness", "verif_warm::warm"],
                   cwd=kani_run.WORK, env=env, stdout=subprocess.PIPE, stderr=subprocess.STDOUT, text=True)
print(r.stdout[-1500:])
if "VERIFICATION:- SUCCESSFUL" not in r.stdout:
    print("setup: kani warm-up failed")
    sys.exit(1)
# warm the test-profile target dir used by replays, witness searches and bounded stand-ins
kani_run.sync("/repo")
r2 = subprocess.run(["cargo", "test", "--offline", "--lib", "--no-run", "--target-dir", kani_run.TEST_TARGET],
                    cwd=kani_run.WORK, env=env, stdout=subprocess.PIPE, stderr=subprocess.STDOUT, text=True)
print(r2.stdout[-600:])
if r2.returncode != 0:
    print("setup: test-profile warm-up failed")
    sys.exit(1)
v = subprocess.run(["verus", "--version"], capture_output=True, text=True)
print(v.stdout.strip())
print("setup ok")
