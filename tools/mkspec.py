#!/usr/bin/env python3
"""Authoring aid (not used by checks): turn an annotated Verus function (as developed in a scratch
file) into a //@fn block by marking every line that is not repository code with /*@*/.

usage: mkspec.py <annotated.rs> <fn-name-in-annotated> <repo-rel-file> "<[impl H ::] name>" [--repo /repo]
"""
import difflib, re, sys, os
sys.path.insert(0, os.path.dirname(os.path.abspath(__file__)))
import rustlex as rl
import vgen


def find_annotated_fn(text, name):
    # locate `fn name` and take through the matching brace of the *body*: the body brace is the
    # first `{` at depth 0 that starts a line (annotated files keep it on its own line) or the first
    # `{` after the clauses
    m = re.search(r"^([ \t]*)((pub(\([a-z]+\))? )?fn %s\b)" % re.escape(name), text, re.M)
    if not m:
        raise SystemExit("fn %s not in annotated file" % name)
    start = m.start(2)
    ct = rl.code_tokens(text[start:])
    # skip params
    i = 0
    while ct[i].text != "(":
        i += 1
    i = rl.match_close(ct, i) + 1
    # find body brace: a `{` at depth 0 whose preceding token is not `==>`-like inside clauses.
    # Heuristic: the first `{` at depth 0 that is first on its line.
    depth = 0
    sub = text[start:]
    for j in range(i, len(ct)):
        t = ct[j]
        if t.kind == "punct":
            if t.text == "{" and depth == 0:
                ls = sub.rfind("\n", 0, t.start) + 1
                if sub[ls:t.start].strip() == "" or ct[j - 1].text in (")", ","):
                    cb = rl.match_close(ct, j)
                    return sub[:ct[cb].end]
            if t.text in rl.OPEN:
                depth += 1
            elif t.text in rl.CLOSE:
                depth -= 1
    raise SystemExit("no body")


def main():
    ann, name, rel, path = sys.argv[1:5]
    repo = "/repo"
    text = open(ann).read()
    a_fn = vgen.dedent(find_annotated_fn(text, name))
    cur = vgen.normalise(vgen.slice_fn(repo, rel, path)).split("\n")
    al = a_fn.split("\n")
    # pre-pass: lines with `-> (r: T)` or `in it:`
    pre = []
    for l in al:
        m = re.search(r"-> \((\w+): (.*)\)\s*$", l)
        if m and "fn " in l:
            pre.append(("dir", "//!ret %s" % m.group(1)))
            l = l[:m.start()] + "-> " + m.group(2)
        m = re.match(r"(\s*(?:'\w+: )?for .* in )(\w+): (.*)$", l)
        if m:
            pre.append(("dir", "//!iter %s" % m.group(2)))
            l = m.group(1) + m.group(3)
        pre.append(("l", l))
    a = [x[1].strip() if x[0] == "l" else "\0dir" for x in pre]
    b = [l.strip() for l in cur]
    sm = difflib.SequenceMatcher(None, a, b, autojunk=False)
    out = []
    for tag, i1, i2, j1, j2 in sm.get_opcodes():
        if tag == "equal":
            out.extend(cur[j1:j2])
        else:
            for k in range(i1, i2):
                kind, l = pre[k]
                if kind == "dir":
                    out.append("/*@*/ " + l)
                elif l.strip():
                    ind = re.match(r"\s*", l).group(0)
                    out.append(ind + "/*@*/ " + l.strip())
            for k in range(j1, j2):
                if cur[k].strip():
                    out.append(cur[k] + "   //REVIEW: repo line with no counterpart")
                else:
                    out.append(cur[k])
    print("//@fn %s :: %s" % (rel, path))
    print("\n".join(out))
    print("//@end")


if __name__ == "__main__":
    main()
