"""Run one Verus unit generated from /repo's current tree; classify the outcome per obligation."""
import json
import os
import re
import subprocess
import time

import vgen

GEN_DIR = "/var/tmp/ilverif/gen"
VERUS_TIMEOUT_S = 300


def _oblig_table(spec_path):
    """//@oblig <fn-suffix> :: carries|aux :: text   (fn-suffix matched against the end of Verus' fn path)"""
    obl = []
    with open(spec_path) as f:
        for l in f:
            s = l.strip()
            if s.startswith("//@oblig "):
                parts = [p.strip() for p in s[len("//@oblig "):].split(" :: ")]
                overlay = len(parts) > 3 and parts[2] == "overlay"
                obl.append({"fn": parts[0], "role": parts[1], "text": parts[-1] if len(parts) > 2 else "", "from_repo": not overlay})
    return obl


def add_vacuity_probes(text_lines):
    """after the body `{` of each generated exec fn from /repo add `assert(false);` (must FAIL)."""
    return text_lines


def run_unit(unit, repo, verif_root, vacuity=False, rlimit=None, extra_args=()):
    spec = os.path.join(verif_root, "verus", unit + ".spec")
    os.makedirs(GEN_DIR, exist_ok=True)
    res = {"unit": unit, "backend": "verus", "spec": spec, "obligations": [], "errors": [], "class": "ok",
           "wall_s": 0.0}
    t0 = time.time()
    try:
        text, report = vgen.generate(spec, repo, vacuity=vacuity)
    except vgen.GenError as e:
        res["class"] = "undecided"
        res["reason"] = "generation: %s" % e
        res["wall_s"] = time.time() - t0
        return res
    res["extraction"] = report
    gen = os.path.join(GEN_DIR, unit + ("_vac" if vacuity else "") + ".rs")
    with open(gen, "w") as f:
        f.write(text)
    res["generated_file"] = gen
    cmd = ["verus", gen, "--triggers-mode", "silent", "--output-json", "--time", "--error-format=json",
           "--multiple-errors", "4"]
    if rlimit:
        cmd += ["--rlimit", str(rlimit)]
    cmd += list(extra_args)
    res["checker_cmd"] = " ".join(cmd)
    try:
        p = subprocess.run(cmd, cwd=GEN_DIR, capture_output=True, text=True, timeout=VERUS_TIMEOUT_S)
    except subprocess.TimeoutExpired:
        res["class"] = "undecided"; res["reason"] = "verus timeout"; res["wall_s"] = time.time() - t0
        return res
    res["wall_s"] = time.time() - t0
    diags = []
    for l in p.stderr.split("\n"):
        l = l.strip()
        if l.startswith("{") and '"$message_type"' in l:
            try:
                diags.append(json.loads(l))
            except ValueError:
                pass
    try:
        js = json.loads(p.stdout[p.stdout.index("{"):])
    except (ValueError, IndexError):
        res["class"] = "undecided"; res["reason"] = "no json from verus: " + p.stderr[-2000:]
        return res
    vr = js.get("verification-results", {})
    res["verified"] = vr.get("verified", 0)
    res["errors_n"] = vr.get("errors", 0)
    res["verus_version"] = js.get("verus", {}).get("version")
    breakdown = []
    try:
        for m in js["times-ms"]["smt"]["smt-run-module-times"]:
            breakdown.extend(m.get("function-breakdown", []))
    except KeyError:
        pass
    res["smt_ms"] = js.get("times-ms", {}).get("smt", {}).get("total")
    lines = text.split("\n")
    # map generated line -> enclosing fn name (simple scan of `fn name` headers)
    fn_at = []
    cur = None
    for l in lines:
        m = re.match(r"\s*(?:pub(?:\([a-z]+\))?\s+)?(?:open\s+|closed\s+|uninterp\s+)?(?:spec\s+|proof\s+|exec\s+)?fn\s+(\w+)", l)
        if m:
            cur = m.group(1)
        fn_at.append(cur)
    hard_error = False
    for d in diags:
        if d.get("level") != "error":
            continue
        msg = d.get("message", "")
        if msg.startswith("aborting due to"):
            continue
        sp = [s for s in d.get("spans", []) if s.get("is_primary")] or d.get("spans", [])
        line = sp[0]["line_start"] if sp else None
        ltxt = lines[line - 1].strip() if line and line <= len(lines) else ""
        fn = fn_at[line - 1] if line and line <= len(fn_at) else None
        labels = [s.get("label") for s in d.get("spans", []) if s.get("label")]
        kinds = ("postcondition not satisfied", "assertion failed", "invariant not satisfied",
                 "precondition not satisfied", "possible arithmetic", "possible division", "index out of bounds",
                 "decreases not satisfied", "possible bit shift", "loop invariant", "rlimit", "Resource limit",
                 "recommendation not met", "might not be allowed", "unreachable", "panic")
        is_verif = any(k in msg or any(k in (lb or "") for lb in labels) for k in kinds) or "failed" in msg
        if "rlimit" in msg or "Resource limit" in msg:
            res.setdefault("rlimit_hits", []).append(fn)
        if not is_verif:
            hard_error = True
        # the clause that failed (for postconditions the secondary span points at the ensures clause)
        clause = None
        for s in d.get("spans", []):
            if not s.get("is_primary") and s.get("text"):
                clause = s["text"][0]["text"].strip()
        res["errors"].append({"fn": fn, "message": msg, "line": line, "text": ltxt, "clause": clause,
                              "verification_error": is_verif})
    if vr.get("encountered-vir-error") or (hard_error and not breakdown):
        res["class"] = "undecided"
        res["reason"] = "verus rejected the generated text (not a verification failure): " + \
            "; ".join(e["message"] for e in res["errors"])[:600]
        return res
    table = _oblig_table(spec)
    status = {}
    for b in breakdown:
        status[b["function"].split("::", 1)[1] if "::" in b["function"] else b["function"]] = b
    for o in table:
        hit = [k for k in status if k == o["fn"] or k.endswith("::" + o["fn"])]
        if not hit:
            # functions with no SMT query (trivial) do not show in the breakdown: count as discharged if
            # verus reported overall success
            st = "discharged" if vr.get("success") else "unknown"
            tm = 0
        else:
            b = status[hit[0]]
            st = "discharged" if b.get("success") else "failed"
            tm = b.get("time-micros", 0) / 1000.0
        failing = [e for e in res["errors"] if e["fn"] == o["fn"].split("::")[-1]]
        if failing and st != "failed":
            st = "failed"
        res["obligations"].append({"name": "verus:%s::%s" % (unit, o["fn"]), "role": o["role"], "text": o["text"],
                                   "backend": "verus/z3", "status": st, "solver_ms": tm, "bound": None, "from_repo": o["from_repo"],
                                   "failing": failing})
    listed = {o["fn"].split("::")[-1] for o in table}
    res["unlisted_failures"] = [e for e in res["errors"] if e["fn"] not in listed]
    if vr.get("success") and all(o["status"] == "discharged" for o in res["obligations"]):
        res["class"] = "ok"
    else:
        carried = [o for o in res["obligations"] if o["status"] == "failed" and o["role"] == "carries"]
        if carried:
            res["class"] = "violation"
        elif any(o["status"] == "failed" for o in res["obligations"]) or res["unlisted_failures"]:
            res["class"] = "aux-failure"
        else:
            res["class"] = "undecided"; res["reason"] = "verus reported failure without a located error"
    return res
