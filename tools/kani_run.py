"""Kani route: insert-only injection of harness modules into a scratch copy of /repo's working tree,
one `cargo kani` invocation per unit, per-harness result parsing, counterexample extraction
(concrete playback) and replay against the real code with the repository's own toolchain."""
import json
import os
import re
import shutil
import subprocess
import time

WORK = "/var/tmp/ilverif/work"
KANI_TARGET = "/verif/.cache/kani-target"
TEST_TARGET = "/verif/.cache/test-target"
RSYNC_EXCLUDES = ["target", ".git", "gui", "front", "node_modules", "packages", "content", "demo"]

# unit name -> (source file that receives the `mod` line, module path prefix Kani prints, extra cargo-kani flags)
UNITS = {
    "value": ("src/value/mod.rs", "value::verif_kani_value", []),
    "wire": ("src/protocol/handler.rs", "protocol::handler::verif_kani_wire", []),
    "coercion": ("src/value/arrow_convert.rs", "value::arrow_convert::verif_kani_coercion", []),
    "codegen_guard": ("src/code_generator/mod.rs", "code_generator::verif_kani_codegen_guard", []),
    "optimizer_helpers": ("src/optimizer/mod.rs", "optimizer::verif_kani_optimizer_helpers", []),
    "vector_ops": ("src/vector_ops.rs", "vector_ops::verif_kani_vector_ops", []),
    "validator": ("src/schema/validator.rs", "schema::validator::verif_kani_validator", ["-Z", "stubbing"]),
}


def parse_harness_table(path):
    """//@harness name :: role :: bound :: [k=v ::]* text"""
    out = []
    with open(path) as f:
        for l in f:
            s = l.strip()
            if not s.startswith("//@harness "):
                continue
            parts = [p.strip() for p in s[len("//@harness "):].split(" :: ")]
            h = {"name": parts[0], "role": parts[1], "bound": parts[2], "tier": "quick", "text": parts[-1]}
            for p in parts[3:-1]:
                if "=" in p:
                    k, v = p.split("=", 1)
                    h[k.strip()] = v.strip()
            out.append(h)
    return out


def sync(repo):
    os.makedirs(WORK, exist_ok=True)
    cmd = ["rsync", "-a", "--delete"]
    for e in RSYNC_EXCLUDES:
        cmd += ["--exclude", "/" + e]
    cmd += [repo.rstrip("/") + "/", WORK + "/"]
    subprocess.run(cmd, check=True)
    _INJECTED.clear()
    global _SYNCED
    _SYNCED = True
    # docs/spec/*.yaml are include_str!'d by the crate; they are part of the copy (docs is not excluded)


_STAMPS = "/var/tmp/ilverif/inject_stamps.json"
_SYNCED = False  # the scratch copy was synced from /repo by this process (injections accumulate on top of it)
_INJECTED = {}   # path -> sha256 of the injected content, for the scratch copy as it is right now


def pre_build(kind):
    """Call right before a cargo invocation on the scratch copy.  cargo decides freshness by mtime only, and the
    scratch copy's files move BACK in time when rsync restores an un-injected original over a file that carried
    an injected module in the previous build.  So: remember, per target dir, the exact set of injected files of
    the last build; if the current set differs in any way, bump src/lib.rs so that the crate is rebuilt."""
    try:
        with open(_STAMPS) as f:
            stamps = json.load(f)
    except Exception:  # noqa
        stamps = {}
    key = "__set_" + kind
    if stamps.get(key) != _INJECTED:
        os.utime(os.path.join(WORK, "src/lib.rs"), None)
        stamps[key] = dict(_INJECTED)
        with open(_STAMPS, "w") as f:
            json.dump(stamps, f)


def write_stable(path, data):
    """Write an injected file; if its content is byte-identical to what an earlier run wrote at this path, give it
    the same mtime again, so that cargo's mtime-based freshness check sees an unchanged file (identical content
    => identical mtime; any change of content => a new mtime)."""
    import hashlib
    h = hashlib.sha256(data).hexdigest()
    try:
        with open(_STAMPS) as f:
            stamps = json.load(f)
    except Exception:  # noqa
        stamps = {}
    with open(path, "wb") as f:
        f.write(data)
    _INJECTED[path] = h
    rec = stamps.get(path)
    if rec and rec[0] == h:
        os.utime(path, (rec[1], rec[1]))
    else:
        stamps[path] = [h, os.stat(path).st_mtime]
        with open(_STAMPS, "w") as f:
            json.dump(stamps, f)


def inject(units, root, repo):
    """append `mod` lines (insert-only) and verify that removing them gives back /repo's bytes"""
    notes = []
    for u in units:
        rel, _, _ = UNITS[u]
        p = os.path.join(WORK, rel)
        with open(p, "rb") as f:
            orig = f.read()
        add = ("\n#[cfg(any(kani, test))]\n#[path = \"%s/kani/%s.rs\"]\nmod verif_kani_%s;\n" % (root, u, u)).encode()
        write_stable(p, orig + add)
        with open(os.path.join(repo, rel), "rb") as f:
            if f.read() != orig:
                raise RuntimeError("scratch copy of %s differs from /repo" % rel)
        notes.append({"file": rel, "appended_lines": add.decode().strip().split("\n")})
    return notes


_RE_CHECK = re.compile(r"^(?:Thread (\d+): )?Checking harness (\S+?)\.\.\.")
_RE_THREAD = re.compile(r"^Thread (\d+):\s*$")


def parse_kani_output(text):
    """-> {harness_fullname: {status, time_s, failed_checks, covers, raw}}"""
    res = {}
    cur_of_thread = {}
    cur = None
    for line in text.split("\n"):
        m = _RE_CHECK.match(line)
        if m:
            th = m.group(1) or "0"
            cur_of_thread[th] = m.group(2)
            res.setdefault(m.group(2), {"status": None, "time_s": None, "failed_checks": [], "covers": None, "raw": []})
            if m.group(1) is None:
                cur = m.group(2)
            continue
        m = _RE_THREAD.match(line)
        if m:
            cur = cur_of_thread.get(m.group(1))
            continue
        if cur is None or cur not in res:
            continue
        r = res[cur]
        if line.startswith("VERIFICATION:- "):
            r["status"] = line[len("VERIFICATION:- "):].strip()
        elif line.startswith("Verification Time:"):
            r["time_s"] = float(re.search(r"([\d.]+)s", line).group(1))
        elif line.startswith("Failed Checks:"):
            r["failed_checks"].append(line[len("Failed Checks:"):].strip().strip('"'))
        elif "cover properties satisfied" in line:
            m2 = re.search(r"(\d+) of (\d+) cover", line)
            r["covers"] = (int(m2.group(1)), int(m2.group(2)))
        elif line.startswith("CBMC") or "unwinding assertion" in line:
            r["raw"].append(line.strip())
        elif line.startswith(" ** ") and "failed" in line:
            m2 = re.search(r"(\d+) of (\d+) failed", line)
            if m2:
                r["checks"] = (int(m2.group(1)), int(m2.group(2)))
    return res


def cargo_kani(unit, harnesses, timeout_s, jobs, extra=(), log_name=None):
    rel, modpath, flags = UNITS[unit]
    cmd = ["cargo", "kani", "--lib", "--target-dir", KANI_TARGET, "-Z", "unstable-options",
           "--harness-timeout", "%ds" % timeout_s, "-j", str(jobs), "--output-format", "terse", "--exact"]
    cmd += flags + list(extra)
    for h in harnesses:
        cmd += ["--harness", "%s::%s" % (modpath, h)]
    env = dict(os.environ, CARGO_NET_OFFLINE="true")
    pre_build("kani")
    t0 = time.time()
    # generous global limit: build (<= 15 min cold) + ceil(n/jobs) rounds of timeout
    rounds = (len(harnesses) + jobs - 1) // jobs
    limit = 1200 + rounds * (timeout_s + 30)
    try:
        p = subprocess.run(cmd, cwd=WORK, env=env, capture_output=True, text=True, timeout=limit)
        out = p.stdout + "\n" + p.stderr
        rc = p.returncode
    except subprocess.TimeoutExpired as e:
        out = (e.stdout or b"").decode(errors="replace") if isinstance(e.stdout, bytes) else (e.stdout or "")
        out += "\nGLOBAL-TIMEOUT"
        rc = -9
    wall = time.time() - t0
    if log_name:
        with open(os.path.join("/var/tmp/ilverif", log_name), "w") as f:
            f.write(" ".join(cmd) + "\n" + out)
    return " ".join(cmd), out, rc, wall


def run_unit(unit, root, tier, jobs=14, only=None):
    """returns dict with per-harness obligations. Assumes sync()+inject() were done."""
    rel, modpath, flags = UNITS[unit]
    table = parse_harness_table(os.path.join(root, "kani", unit + ".rs"))
    if tier == "quick":
        table = [h for h in table if h.get("tier", "quick") == "quick"]
    if only:
        table = [h for h in table if h["name"] in only]
    names = [h["name"] for h in table]
    timeout_s = max(int(h.get("timeout", "300")) for h in table) if table else 300
    cmdline, out, rc, wall = cargo_kani(unit, names, timeout_s, jobs, log_name="kani_%s.log" % unit)
    parsed = parse_kani_output(out)
    res = {"unit": unit, "backend": "kani/cbmc", "checker_cmd": cmdline, "wall_s": wall, "obligations": [],
           "class": "ok", "source_file": rel}
    build_failed = ("error: could not compile" in out or "error[E" in out or "internal compiler error" in out
                    or "GLOBAL-TIMEOUT" in out) and not parsed
    if build_failed:
        res["class"] = "undecided"
        errs = [l for l in out.split("\n") if l.startswith("error")][:8]
        res["reason"] = "kani build failed: " + " | ".join(errs)
        return res
    for h in table:
        full = "%s::%s" % (modpath, h["name"])
        r = parsed.get(full)
        ob = {"name": "kani:%s::%s" % (unit, h["name"]), "role": h["role"], "bound": h["bound"], "text": h["text"],
              "backend": "kani/cbmc", "meta": {k: v for k, v in h.items() if k not in ("name", "role", "bound", "text")}}
        if r is None or r["status"] is None:
            ob["status"] = "undecided"; ob["detail"] = "no result parsed"
        elif r["status"] == "SUCCESSFUL":
            cov = r["covers"]
            if cov is None or cov[0] < cov[1] or cov[1] == 0:
                ob["status"] = "undecided"; ob["detail"] = "vacuous: cover not satisfied %r" % (cov,)
            else:
                ob["status"] = "discharged"
        else:
            raw = " ".join(r["raw"])
            if "timed out" in raw or "out of memory" in raw or (not r["failed_checks"] and "CBMC failed" in raw):
                ob["status"] = "undecided"; ob["detail"] = raw
            elif any("unwinding assertion" in c for c in r["failed_checks"]) and \
                    all("unwinding" in c for c in r["failed_checks"]):
                ob["status"] = "undecided"; ob["detail"] = "unwinding bound too small: %s" % r["failed_checks"]
            else:
                ob["status"] = "failed"; ob["failed_checks"] = r["failed_checks"]
        ob["solver_s"] = r["time_s"] if r else None
        ob["checks"] = r.get("checks") if r else None
        res["obligations"].append(ob)
    return res


_RE_VEC = re.compile(r"^\s*//\s*(-?\d+.*|[\w.+-]+)\s*$")


def concrete_playback(unit, harness):
    """Re-run one failing harness with concrete playback; returns list of byte vectors (call order)."""
    cmdline, out, rc, wall = cargo_kani(unit, [harness], 600, 1,
                                        extra=["-Z", "concrete-playback", "--concrete-playback=print"],
                                        log_name="kani_%s_%s_playback.log" % (unit, harness))
    # one generated test per failed check / satisfied cover:
    #   /// Check for `assertion`: ""<label>""  ...  let concrete_vals: Vec<Vec<u8>> = vec![ // v \n vec![..], ..];
    blocks = re.findall(r"/// Check for `(\w+)`: \"+(.*?)\"+\s*\n(.*?)kani::concrete_playback_run", out, re.S)
    chosen = None
    for kind, label, body in blocks:
        if kind == "cover":
            continue
        m = re.search(r"let concrete_vals: Vec<Vec<u8>> = vec!\[(.*)\];", body, re.S)
        if not m:
            continue
        inner_all = m.group(1)
        vecs = []
        for vm in re.finditer(r"vec!\[([^\]]*)\]", inner_all):
            inner = vm.group(1).strip()
            vecs.append([int(x) for x in inner.split(",") if x.strip()] if inner else [])
        comments = re.findall(r"//\s*(.+)", inner_all)
        chosen = {"bytes": vecs, "values_as_printed": comments, "check_kind": kind, "failed_check": label}
        break
    if chosen is None:
        # a harness without symbolic inputs: Kani prints only the (empty) cover test
        if blocks and all(not re.search(r"vec!\[[^\]]*\d", b[2]) for b in blocks):
            return {"bytes": [], "values_as_printed": [], "check_kind": "assertion",
                    "failed_check": "(harness has no symbolic input: the concrete tree itself is the counterexample)"}, out
        return None, out
    return chosen, out


def replay_on_real_code(unit, harness, bytes_, replay_path):
    """cargo test (repository toolchain) in the scratch copy; True if the real code violates the clause."""
    os.makedirs(os.path.dirname(replay_path), exist_ok=True)
    with open(replay_path + ".input.json", "w") as f:
        json.dump({"harness": harness, "bytes": bytes_}, f)
    env = dict(os.environ, CARGO_NET_OFFLINE="true", VERIF_REPLAY_FILE=replay_path + ".input.json")
    cmd = ["cargo", "test", "--offline", "--lib", "--target-dir", TEST_TARGET, "verif_kani_%s::verif_replay" % unit,
           "--", "--exact", "--nocapture", "--test-threads", "1"]
    # --exact needs the full test path; use a filter instead
    cmd = ["cargo", "test", "--offline", "--lib", "--target-dir", TEST_TARGET, "verif_kani_%s::verif_replay" % unit,
           "--", "--nocapture", "--test-threads", "1"]
    pre_build("test")
    try:
        p = subprocess.run(cmd, cwd=WORK, env=env, capture_output=True, text=True, timeout=3600)
    except subprocess.TimeoutExpired:
        return None, "replay build timed out"
    out = p.stdout + "\n" + p.stderr
    if "VERIF-REPLAY//VIOLATED" in out:
        m = re.search(r"VERIF-REPLAY//VIOLATED ([^\n]*)", out)
        return True, "real code violates: " + m.group(1)
    if "VERIF-REPLAY//OUTSIDE-ASSUMPTIONS" in out or "VERIF-REPLAY//EXHAUSTED" in out:
        return None, "counterexample could not be decoded (outside assumptions)"
    if "test result: ok" in out and "1 passed" in out:
        return False, "real code satisfies the clause on the verifier's input (spurious counterexample)"
    if "panicked at" in out and "test result: FAILED" in out:
        m = re.search(r"panicked at ([^\n]*\n[^\n]*)", out)
        where = m.group(1) if m else ""
        if "/kani/common.rs" in where or "replay file" in where or "replay json" in where:
            return None, "replay harness could not read its input: " + where
        return True, "real code panicked: " + where
    return None, "replay inconclusive: " + out[-1500:]
