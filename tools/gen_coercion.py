"""C12: derive, from the CURRENT text of src/value/arrow_convert.rs, how each scalar column type stores a
value (which Value accessor feeds which Arrow array type, `build_column_array`) and how each Arrow array
type is read back (`extract_value_from_array`), and emit that pairing as Rust for the Kani harness.
A changed match arm changes the generated table; an arm the generator cannot read is a GenError (exit 2).

Scalar column types only (Int32, Int64, Float64, String, Bool, Null, Timestamp); the vector arms pad
mismatching values with zeros and are reported as not covered."""
import os
import re
import sys

sys.path.insert(0, os.path.dirname(os.path.abspath(__file__)))
import rustlex as rl
import vgen

SCALARS = ["Int32", "Int64", "Float64", "String", "Bool", "Null", "Timestamp"]
PAYLOAD = {"TimestampMillisecondArray": "i64", "NullArray": "()", "Int32Array": "i32", "Int64Array": "i64", "Float64Array": "f64", "StringArray": "String", "BooleanArray": "bool"}


def split_match_arms(body):
    """body: text inside `match x { ... }` -> list of (pattern_text, arm_text)"""
    ct = rl.code_tokens(body)
    arms = []
    i = 0
    n = len(ct)
    while i < n:
        # pattern up to `=>` at depth 0
        depth = 0
        j = i
        while j < n:
            t = ct[j]
            if t.kind == "punct":
                if t.text in rl.OPEN:
                    depth += 1
                elif t.text in rl.CLOSE:
                    depth -= 1
                elif t.text == "=>" and depth == 0:
                    break
            j += 1
        if j >= n:
            break
        pat = body[ct[i].start:ct[j].start].strip()
        k = j + 1
        if ct[k].text == "{":
            e = rl.match_close(ct, k)
            arm = body[ct[k].start:ct[e].end]
            k = e + 1
            if k < n and ct[k].text == ",":
                k += 1
        else:
            depth = 0
            e = k
            while e < n:
                t = ct[e]
                if t.kind == "punct":
                    if t.text in rl.OPEN:
                        depth += 1
                    elif t.text in rl.CLOSE:
                        depth -= 1
                    elif t.text == "," and depth == 0:
                        break
                e += 1
            arm = body[ct[k].start:ct[e - 1].end]
            k = e + 1
        arms.append((pat, arm))
        i = k
    return arms


def generate(repo):
    rel = "src/value/arrow_convert.rs"
    build = vgen.slice_fn(repo, rel, "build_column_array")
    extract = vgen.slice_fn(repo, rel, "extract_value_from_array")
    m = re.search(r"match\s+col_type\s*\{", build)
    if not m:
        raise vgen.GenError("build_column_array: `match col_type` not found")
    ct = rl.code_tokens(build[m.end() - 1:])
    close = rl.match_close(ct, 0)
    body = build[m.end():m.end() - 1 + ct[close].start]
    store = {}
    for pat, arm in split_match_arms(body):
        pm = re.match(r"DataType::(\w+)", pat)
        if not pm or pm.group(1) not in SCALARS:
            continue
        dt = pm.group(1)
        am = re.search(r"Arc::new\(\s*(?:arrow::array::)?(\w+Array)::from\(\s*values\s*,?\s*\)\s*\)", arm)
        nm = re.search(r"Arc::new\(\s*(?:arrow::array::)?NullArray::new\(", arm)
        if not am and not nm:
            raise vgen.GenError("build_column_array arm %s: array constructor not recognised" % dt)
        arr = am.group(1) if am else "NullArray"
        if nm or re.search(r"vec!\[\s*None\s*;", arm):
            acc = None
        else:
            xm = re.search(r"and_then\(\s*(?:super::)?Value::(as_\w+)\s*\)", arm) or \
                re.search(r"and_then\(\s*\|v\|\s*v\.(as_\w+)\(\)\s*\)", arm)
            if not xm:
                raise vgen.GenError("build_column_array arm %s: accessor not recognised" % dt)
            acc = xm.group(1)
        store[dt] = (acc, arr)
    missing = [s for s in SCALARS if s not in store]
    if missing:
        raise vgen.GenError("build_column_array: no arm for %s" % missing)
    # read-back: `if let Some(arr) = array.as_any().downcast_ref::<XArray>() { return Ok(Value::K(..arr.value(row_idx)..)); }`
    load = []
    for xm in re.finditer(r"downcast_ref::<(?:arrow::array::)?(\w+Array)>\(\)\s*\{\s*return\s+Ok\(\s*Value::(\w+)\((.*?)\)\s*\);", extract, re.S):
        arr, ctor, expr = xm.group(1), xm.group(2), xm.group(3)
        if arr in PAYLOAD and not any(a == arr for a, _, _ in load):
            load.append((arr, ctor, expr.strip()))
    if "is_null(row_idx)" not in extract or "Value::Null" not in extract:
        raise vgen.GenError("extract_value_from_array: null handling not recognised")
    if "NullArray" in {a for _, a in store.values()}:
        # an Arrow Null-typed array has no validity buffer: the read-back must test the data type
        if not re.search(r"data_type\(\)\s*==\s*&ArrowDataType::Null", extract):
            raise vgen.GenError("extract_value_from_array: a Null-typed array is not read back as Value::Null")
        load.append(("NullArray", "Null", ""))
    used = {arr for _, arr in store.values()}
    for arr in used:
        if not any(a == arr for a, _, _ in load):
            raise vgen.GenError("extract_value_from_array: no read-back for %s" % arr)
    out = ["// GENERATED on every run by tools/gen_coercion.py from src/value/arrow_convert.rs — do not edit.",
           "// build_column_array: column type -> (Value accessor, Arrow array type); extract_value_from_array: array type -> Value constructor",
           "#[allow(dead_code)]", "pub enum Stored {"]
    for arr in sorted(used):
        out.append("    %s(Option<%s>)," % (arr, PAYLOAD[arr]))
    out.append("}")
    out.append("pub const NCOLS: usize = %d;" % len(SCALARS))
    out.append("/// what build_column_array puts into the column cell for value `v` when the column type is SCALARS[col]")
    out.append("pub fn store(col: usize, v: &Value) -> Stored {")
    out.append("    match col {")
    for i, dt in enumerate(SCALARS):
        acc, arr = store[dt]
        if acc is None:
            out.append("        %d => Stored::%s(None), // DataType::%s" % (i, arr, dt))
        elif PAYLOAD[arr] == "String":
            out.append("        %d => Stored::%s(v.%s().map(|s| s.to_string())), // DataType::%s" % (i, arr, acc, dt))
        else:
            out.append("        %d => Stored::%s(v.%s()), // DataType::%s" % (i, arr, acc, dt))
    out.append("        _ => unreachable!(),")
    out.append("    }")
    out.append("}")
    out.append("/// what extract_value_from_array yields for that cell (a None cell is an Arrow null)")
    out.append("pub fn load(s: Stored) -> Value {")
    out.append("    match s {")
    for arr, ctor, expr in load:
        if arr not in used:
            continue
        if arr == "NullArray":
            out.append("        Stored::NullArray(_) => Value::Null,")
            continue
        if PAYLOAD[arr] == "String":
            out.append("        Stored::%s(Some(x)) => Value::%s(Arc::from(x.as_str()))," % (arr, ctor))
        else:
            out.append("        Stored::%s(Some(x)) => Value::%s(x)," % (arr, ctor))
        out.append("        Stored::%s(None) => Value::Null," % arr)
    out.append("    }")
    out.append("}")
    table = {dt: {"accessor": store[dt][0], "array": store[dt][1],
                  "read_back_as": next(c for a, c, _ in load if a == store[dt][1])} for dt in SCALARS}
    return "\n".join(out) + "\n", table


def main():
    text, table = generate(sys.argv[1] if len(sys.argv) > 1 else "/repo")
    print(text)
    print(table)


if __name__ == "__main__":
    main()
