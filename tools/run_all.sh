#!/bin/sh
# run every registered quick (or $1=thorough) check on /repo; print one line per property
cd "$(dirname "$0")/.."
TIER=${1:-quick}
for p in $(python3 -c "import json;print(' '.join(c['property_id'] for c in json.load(open('MANIFEST.json'))['checks']))"); do
  s=$(date +%s)
  ./check $p --tier $TIER > /var/tmp/ilverif/run_$p.log 2>&1; rc=$?
  e=$(date +%s)
  echo "$p exit=$rc $((e-s))s $(grep -c '^KNOWN-FINDING' /var/tmp/ilverif/run_$p.log) known $(tail -1 /var/tmp/ilverif/run_$p.log | cut -c1-150)"
done
