"""Per-property configuration: which units decide it, evidence level, standing assumptions."""

PROPS = {}

PROPS["C36"] = {
    "verus": ["bloom"],
    "kani": [],
    "level": "proof",
    "level_text": "Unbounded Verus proof over the bloom filter's functions sliced verbatim from /repo on every run: might_contain(v) == all k probe bits set, insert sets them and clears nothing, for every size/hash count/history. The hash-index clause of C36 is not decided.",
    "level_note": "trusted: Verus+Z3; hash_pair deterministic (external_body); count<usize::MAX; HashIndex not covered",
    "technique": "Verus contracts (requires/ensures/loop invariants) on functions extracted from /repo each run, erasure-checked",
    "aux_failure": "violation",
    "functions_under_contract": ["src/bloom_filter.rs: BloomFilter::{with_params, insert, might_contain, get_bit_index, len, is_empty, num_bits, num_hashes}",
                                 "src/bloom_filter.rs: BloomFilter::hash_pair (assumed contract: deterministic function of its argument)"],
    "assumptions": [
        "BloomFilter::hash_pair is a deterministic function of its argument (external_body; DefaultHasher is outside Verus)",
        "insert: count < usize::MAX (otherwise `self.count += 1` overflows) — stated as requires",
        "HashIndex (HashMap entry API, iterator position) is outside both verifiers: that clause of C36 is not decided",
        "Verus, Z3, rustc are trusted",
    ],
    "trusted_base": ["verus 0.2026.09.13 + z3", "vstd specifications of Vec indexing and ranges"],
    "explanation": "no-false-negative contract of the bloom filter proved for every size, hash count and insert history",
}
