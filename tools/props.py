"""Per-property configuration: which units decide it, evidence level, standing assumptions."""

PROPS = {}

PROPS["C36"] = {
    "standin": ["standin_hash_index"],
    "verus": ["bloom"],
    "kani": [],
    "level": "proof",
    "level_text": "Unbounded Verus proof over the bloom filter's functions sliced verbatim from /repo on every run: might_contain(v) == all k probe bits set, insert sets them and clears nothing, for every size/hash count/history. Hash-index clause: BOUNDED stand-in (not counted as proved) — every history of <= 5 insert/remove/rebuild operations over 4 tuples, get/get_with_bloom/probe return exactly the stored tuples with the probe key.",
    "level_note": "trusted: Verus+Z3; hash_pair deterministic (external_body); count<usize::MAX; HashIndex not covered",
    "technique": "Verus contracts (requires/ensures/loop invariants) on functions extracted from /repo each run, erasure-checked; plus always-run bounded stand-in tests on the real code for the clauses outside both verifiers (labelled bounded, never counted as proved)",
    "aux_failure": "violation",
    "functions_under_contract": ["src/bloom_filter.rs: BloomFilter::{with_params, clear, insert, might_contain, get_bit_index}",
                                 "src/bloom_filter.rs: BloomFilter::hash_pair (assumed contract: deterministic function of its argument)"],
    "assumptions": [
        "BloomFilter::hash_pair is a deterministic function of its argument (external_body; DefaultHasher is outside Verus)",
        "insert: count < usize::MAX (otherwise `self.count += 1` overflows) — stated as requires",
        "with_params: num_bits <= usize::MAX - 63 (otherwise `num_words * 64` overflows; such a filter cannot be allocated anyway); BloomFilter::new (f64 arithmetic) is not under contract — filters built by `new` are assumed well formed",
        "std: usize::div_ceil(a,b) == ceil(a/b); slice::fill keeps the length (assume_specification)",
        "HashIndex (HashMap entry API, iterator position) is outside both verifiers: that clause of C36 is not decided",
        "Verus, Z3, rustc are trusted",
    ],
    "trusted_base": ["verus 0.2026.09.13 + z3", "vstd specifications of Vec indexing and ranges"],
    "explanation": "no-false-negative contract of the bloom filter proved for every size, hash count and insert history",
}

PROPS["C28"] = {
    "verus": ["auth"],
    "kani": [],
    "level": "proof",
    "level_text": "Unbounded Verus proof over the six authorization functions of src/auth.rs and the real Role/KgRole/Statement/MetaCommand definitions, all sliced from /repo on every run; payload types are opaque, so the result holds for every statement value. Lattice, viewer-read-only and admin-only clauses are theorems over the function contracts.",
    "level_note": "trusted: Verus+Z3; the classification mutates_persistent/admin_only is written from the property statement; global Viewer gate defers data statements to the per-KG gate (the per-KG viewer clause is the one proved read-only); the handler's use of these functions is not covered (C27)",
    "technique": "Verus contracts (ensures) on functions extracted from /repo each run, erasure-checked; theorems over the contracts; a bounded witness search on the real code supplies failing inputs after a failed obligation",
    "aux_failure": "violation",
    "functions_under_contract": ["src/auth.rs: authorize_kg_operation, authorize_kg_editor, authorize_kg_viewer, authorize_statement, authorize_non_admin, authorize_non_admin_meta",
                                 "types extracted verbatim: auth::Role, auth::KgRole, statement::Statement, statement::meta::MetaCommand"],
    "assumptions": [
        "which statements 'change persistent state' / are 'admin-only' is the spec's classification (mutates_persistent, admin_only), written from the property text",
        "payload types (InsertOp, Rule, QueryGoal, ...) are opaque stubs: decisions cannot depend on payloads (a payload-dependent decision would not type-check against the stubs => exit 2)",
        "interpolants W1 = !mutates && !admin_only (viewer <= W1 <= editor) and W2 = !admin_only (editor <= W2 <= owner): an editor that denies a non-mutating statement, or an owner that denies a non-admin statement, is reported even if the lower role denies it too",
        "how the request handler combines the two gates is not covered (C27 not applicable)",
    ],
    "trusted_base": ["verus 0.2026.09.13 + z3"],
    "explanation": "role lattice + viewer read-only + admin-only, for every Statement value",
}

PROPS["C32"] = {
    "standin": ["standin_delete"],
    "verus": ["insert_dedup"],
    "kani": [],
    "level": "proof",
    "level_text": "Unbounded Verus proof of the dedup loop of KnowledgeGraph::insert_in_memory (statement region sliced from /repo each run): the stored vector stays duplicate-free, its contents become old ∪ batch (in-batch duplicates included), new_count + dup_count = batch size and new_count = growth. Insert clause only; delete / conditional delete / update clauses are not decided. BOUNDED stand-in for the delete clause (not counted as proved): delete batches mixing present, absent and repeated tuples through StorageEngine against a set model.",
    "level_note": "trusted: Verus+Z3; Vec::contains is membership under PartialEq; Tuple's derived PartialEq/Clone are element-wise (C31 covers Value); the map lookup binding `existing_tuples`, and that the counters reach the caller unchanged, are outside the region",
    "technique": "Verus loop invariant on a statement region extracted from /repo each run, erasure-checked; plus always-run bounded stand-in tests on the real code for the clauses outside both verifiers (labelled bounded, never counted as proved)",
    "aux_failure": "violation",
    "functions_under_contract": ["src/storage_engine/mod.rs: KnowledgeGraph::insert_in_memory — region: counter declarations + `for tuple in tuples {..}`"],
    "assumptions": [
        "slice::contains(x) <=> some element == x (assume_specification)",
        "Tuple::eq / Tuple::clone are the element-wise liftings (external_body with spec; Value-level laws are C31)",
        "existing.len() + batch.len() < usize::MAX (requires)",
        "dropped around the region: HashMap entry lookup binding existing_tuples, metadata update, DD shadow write, snapshot publication, the final Ok((new_count, dup_count))",
        "delete_in_memory (retain over HashSet<&Tuple>), conditional delete and update (run queries through the engine) are not decided",
        "insert_in_memory is not shown to be the only writer of input_tuples",
    ],
    "trusted_base": ["verus 0.2026.09.13 + z3", "vstd specs of Vec::push/len and the ghost iterator of `for x in vec`"],
    "explanation": "set invariant + report counts of the insert path",
}

PROPS["C11"] = {
    "standin": ["standin_histories_clean", "standin_histories_dirty"],
    "verus": ["consolidate"],
    "kani": [],
    "level": "proof",
    "level_text": "Unbounded Verus proof of the merge loop of consolidate_to_current (the function a restart replays the durable log through), sliced from /repo each run: for every tuple the net multiplicity of the output equals that of the log, no tuple appears twice, no zero entry remains. This is the recovery-function half of C11; that the write path keeps the log's net multiplicities equal to the live set is not decided. BOUNDED stand-ins on the whole engine (not counted as proved): every clean insert/delete history of length <= 5 over 2 tuples through StorageEngine, save, restart; histories with re-inserts / absent deletes (length <= 3) exposed a genuine write-path defect, which was repaired.",
    "level_note": "trusted: Verus+Z3; slice::sort_by groups equal data (replaced by precondition `grouped`, relies on C31); |diff|<=1 and len<2^62 (no i64 overflow); write path (locks + file system) not covered",
    "technique": "Verus loop invariant on a statement region extracted from /repo each run, erasure-checked; plus always-run bounded stand-in tests on the real code for the clauses outside both verifiers (labelled bounded, never counted as proved)",
    "aux_failure": "violation",
    "functions_under_contract": ["src/storage/persist/consolidate.rs: consolidate_to_current — region from `let mut write_idx = 0;` to `updates.truncate(write_idx);`",
                                 "src/storage/persist/batch.rs: struct Update (verbatim)"],
    "assumptions": [
        "slice::sort_by leaves equal data adjacent (precondition `grouped`), which needs Tuple::cmp to be a total order consistent with == (C31)",
        "per-update |diff| <= 1 and log length < 2^62 (no i64 overflow in `+=`)",
        "Update::clone is field-wise, Tuple::eq is an equivalence with abstract value tv (external_body specs)",
        "log non-empty (the early return on an empty log is outside the region)",
        "not decided deductively: that insert_tuples_into/delete_tuples_from keep net(log,t) in {0,1} in step with the live set (locks + file system) — covered by the bounded restart-history stand-ins only; two writers racing on the same tuple can still both log it (C15, not claimed)",
    ],
    "trusted_base": ["verus 0.2026.09.13 + z3", "vstd specs of Vec index/truncate and range iteration"],
    "explanation": "recovery = { t | net(log,t) > 0 }",
}

PROPS["C31"] = {
    "standin": ["standin_value_laws"],
    "verus": ["order_lemmas"],
    "kani": ["value"],
    "level": "proof",
    "level_text": "Kani/CBMC harnesses over the real Eq/Ord/Hash impls of Value and Tuple: per value kind (concrete discriminant, fully symbolic payload) the binary laws cmp==Equal<=>==, antisymmetry, ==⇒equal hash feed, and transitivity over symbolic triples; cross-kind order shown payload-independent and the 9x9 kind table a strict total order; a Verus meta-lemma lifts these to 'total order on all values' and lexicographically to tuples. Complete (full bit-vector domain) for Null/Bool/Int32/Int64/Float64/Timestamp; strings, vectors and tuples are BOUNDED (payload length <= 1, thorough <= 2) and not counted as proved. BOUNDED stand-in for longer payloads (not counted as proved): all pairs and triples of ~85 representative values incl. strings up to 41 chars and vectors up to 33 elements that differ only late, and ~100 tuples.",
    "level_note": "trusted: Kani 0.68 + CBMC 6.11; std's str/slice Ord, Eq, Hash and Arc deref; Hash observed as the byte sequence fed to the Hasher (SipHash itself not executed); heap kinds bounded",
    "technique": "Kani proof harnesses injected as a child module of src/value/mod.rs in a scratch copy (insert-only), full-domain symbolic scalars with concrete enum kinds; Verus meta-lemma for the ordinal-sum / lexicographic lifting; plus always-run bounded stand-in tests on the real code for the clauses outside both verifiers (labelled bounded, never counted as proved)",
    "aux_failure": "violation",
    "functions_under_contract": ["src/value/mod.rs: <Value as PartialEq>::eq, <Value as Ord>::cmp, <Value as PartialOrd>::partial_cmp, <Value as Hash>::hash, <Tuple as Ord>::cmp, Tuple's derived PartialEq"],
    "assumptions": [
        "strings/vectors: payload length <= 1 (quick) / <= 2 (thorough); std's str and slice comparison/equality/hash are trusted beyond that",
        "Hash consistency is checked on the byte sequence written to the Hasher, for any deterministic Hasher",
        "the lifting from per-kind laws + kind table to all values, and to tuples of any length, is the Verus meta-lemma in verus/order_lemmas.spec (abstract, over any carrier)",
    ],
    "trusted_base": ["kani 0.68.0 + cbmc 6.11", "verus 0.2026.09.13 + z3 (meta-lemma)"],
    "explanation": "Eq/Ord/Hash laws of Value and Tuple",
}

PROPS["C35"] = {
    "standin": ["standin_pagination", "standin_pagination_e2e"],
    "verus": [],
    "kani": ["wire"],
    "level": "proof",
    "level_text": "Kani/CBMC harnesses over the real compare_wire_values: reflexivity, antisymmetry and transitivity on fully symbolic triples within each comparison class (Int64 and Float64 form one class, every mix), payload-independent strict order across classes, class table a strict total order; with the ordinal-sum meta-lemma (Verus, shared with C31) this makes the comparator a total preorder on every mix of kinds, i.e. sort_by cannot observe an inconsistent comparator. Complete for absent/Null/Bool/Int32/Int64/Float64/Timestamp; strings/vectors/bytes BOUNDED (len<=1). Comparator clause only: the slice/total-count clauses (apply_pagination, sort_rows on Vec<WireTuple>) are not decided. BOUNDED stand-in for the slice and sort clauses (not counted as proved): apply_pagination against the slice definition for len <= 6 and every limit/offset <= 8; sort_rows on every sequence of <= 4 rows from 11 mixed-kind values: permutation, sorted under the comparator, no panic.",
    "level_note": "trusted: Kani+CBMC; std String::cmp; slice::sort_by sorts when given a total preorder; pagination/total count not covered (CBMC out of memory on 3 rows; Verus rejects the iterator chain)",
    "technique": "Kani proof harnesses injected as a child module of src/protocol/handler.rs in a scratch copy (insert-only), full-domain symbolic scalars with concrete enum kinds; ordinal-sum meta-lemma in Verus; plus always-run bounded stand-in tests on the real code for the clauses outside both verifiers (labelled bounded, never counted as proved)",
    "aux_failure": "violation",
    "functions_under_contract": ["src/protocol/handler.rs: compare_wire_values, wire_value_type_rank (private; reached from an injected child module)"],
    "assumptions": [
        "slice::sort_by returns a permutation sorted by the comparator whenever the comparator is a total preorder (std)",
        "strings/vectors/bytes: payload length <= 1; std's String ordering trusted beyond that",
        "apply_pagination (slice + take + clone) and the reported total are NOT decided",
        "sort_rows' per-row lexicographic combination over the order_by list is covered by the lexicographic meta-lemma (verus/order_lemmas.spec theorem_lex) only in the abstract",
    ],
    "trusted_base": ["kani 0.68.0 + cbmc 6.11", "verus (meta-lemma in order_lemmas.spec, checked under C31)"],
    "explanation": "sort comparator is a total preorder for every mix of value kinds",
}


def _pre_coercion_table(repo, root):
    import os
    import gen_coercion
    text, table = gen_coercion.generate(repo)
    os.makedirs("/var/tmp/ilverif/gen", exist_ok=True)
    with open("/var/tmp/ilverif/gen/coercion_table.rs", "w") as f:
        f.write(text)
    return {"generated": "/var/tmp/ilverif/gen/coercion_table.rs", "from": "src/value/arrow_convert.rs: build_column_array, extract_value_from_array", "table": table}


# ---------------------------------------------------------------------------------------------------------------
# BOUNDED-ONLY properties: the functions the property is anchored in were measured out of both verifiers' reach
# (DESIGN.md §4.3); per the brief's fallback a bounded check of those functions with a stated bound stands in.
# Nothing here is proved: level "exploration", obligations counted under bounded_* only.
PROPS["C34"] = {
    "engine": "bounded-standin",
    "standin": ["standin_stratification"],
    "verus": [],
    "kani": [],
    "level": "exploration",
    "level_text": "BOUNDED STAND-IN ONLY - nothing is proved for this property. The real validate_rules_stratification (Tarjan SCCs over HashMap<String, HashSet<String>>: out of CBMC's reach, outside Verus' subset) is run on every rule set over 3 predicates in which each ordered (head, body predicate) pair has no / a positive / a negated / both dependencies (4^9 = 262144 sets; thorough: + 200000 pseudo-random sets over 5 predicates) and its verdict compared with the property's own criterion (some negated dependency lies on a dependency cycle); and Handler::query_program is driven with 12 small rule sets (6 with recursion through negation, 6 stratified) under every split of their clauses between persistent and session rules: an unstratified set must be refused (at registration or at the query), a stratified one answered.",
    "level_note": "bounded: 3 predicates exhaustively (5 sampled in thorough), unary rules with one dependency per clause; 12 rule sets x 2^clauses splits at the handler. Not covered: materialized persistent rules (left out of the engine's rule prefix), rules arriving through the session manager's other entry points, larger predicate vocabularies",
    "technique": "bounded stand-in tests on the real code (cargo test in a scratch copy of the working tree, module injected insert-only); the contract is the property's iff evaluated on enumerated inputs; labelled bounded, never counted as proved; no deductive obligation exists for this property",
    "aux_failure": "violation",
    "functions_under_contract": [],
    "assumptions": [
        "nothing is proved; the stated bound is the whole coverage",
        "the oracle (Floyd-Warshall reachability on <= 5 nodes: a negated dependency h -/-> b with b reaching h) is the property's definition of recursion through negation",
    ],
    "trusted_base": ["rustc/cargo test on the scratch copy", "witness/standin_stratification.rs (oracle)"],
    "explanation": "stratification check at the function and at the request entry point",
}

PROPS["C30"] = {
    "engine": "bounded-standin",
    "standin": ["standin_parse_all_first"],
    "verus": [],
    "kani": [],
    "level": "exploration",
    "level_text": "BOUNDED STAND-IN ONLY - nothing is proved for this property. The parse-all-first loop is inlined in the async Handler::query_program and interleaved with storage calls (outside both verifiers). The real handler is driven with every program of 1..=3 state-changing statements (every sequence of length <= 2 over a pool of 9: inserts, bulk insert, deletes, conditional delete, rule registration, rule drop, schema declaration; every 6th of length 3; thorough: length 4) with a malformed statement (as judged by statement::parse_statement itself) inserted at every position: the request must be refused and base tuples, persistent rules and schemas must be exactly what they were; and a third of the well-formed programs are compared with statement-by-statement submission in program order.",
    "level_note": "bounded: programs of <= 3 (thorough 4) statements from a pool of 9 on one fixed starting content; state observed = base tuples + persistent rules + schema names; meta commands, session facts, updates and multi-line statements not exercised",
    "technique": "bounded stand-in tests on the real code (cargo test in a scratch copy of the working tree, module injected insert-only); the contract (rejected and state unchanged / effects in program order) is evaluated on enumerated programs; labelled bounded, never counted as proved; no deductive obligation exists for this property",
    "aux_failure": "violation",
    "functions_under_contract": [],
    "assumptions": [
        "nothing is proved; the stated bound is the whole coverage",
        "a statement is malformed iff statement::parse_statement rejects it on its own line (the property's 'fails to parse')",
    ],
    "trusted_base": ["rustc/cargo test on the scratch copy", "witness/standin_parse_all_first.rs (oracle)"],
    "explanation": "all-or-nothing on syntax errors at the request entry point",
}

PROPS["C18"] = {
    "engine": "bounded-standin",
    "standin": ["standin_incremental"],
    "verus": [],
    "kani": [],
    "level": "exploration",
    "level_text": "BOUNDED STAND-IN ONLY - nothing is proved for this property. DerivedRelationsManager / KnowledgeGraph::publish_snapshot are state machines over HashMap<String, HashSet<String>> behind a worker thread (CBMC: no result on the smallest instance; no Verus specification for the thread/channel code). Two real StorageEngines get the same history through the public API, one with KnowledgeGraph::enable_incremental called before step 0, 1 or 2, one never; after every step the answers for four persistent rules (over base facts with two clauses, over a derived and a base relation, recursive, over derived relations only) from execute_query_with_rules_tuples_on must agree. Histories: every sequence of length <= 2 and every 3rd of length 3 (thorough: all of length <= 3, every 20th of length 4) over 11 steps (base inserts/deletes on two relations, rule registrations, clause removal, rule drop) that registers a rule, plus every 7th of the others.",
    "level_note": "bounded: histories of <= 3 (thorough 4) steps over 11 step kinds, sampled as stated, 4 fixed rules, <= 5 base tuples; enable_incremental is called directly (index creation, its production trigger, is not exercised); on the current tree auto-materialisation fails on every rule (its query text `?name(..)` is rejected by the engine), so the comparison exercises invalidation and snapshot publication but never a stored materialisation",
    "technique": "bounded stand-in tests on the real code (cargo test in a scratch copy of the working tree, module injected insert-only); the contract (answers equal a fresh evaluation) is evaluated by differential execution of the same real engine with the feature off; labelled bounded, never counted as proved; no deductive obligation exists for this property",
    "aux_failure": "violation",
    "functions_under_contract": [],
    "assumptions": [
        "nothing is proved; the stated bound is the whole coverage",
        "the engine without incremental maintenance is taken as the fresh evaluation of the current rules over the current facts (the property's own reference)",
    ],
    "trusted_base": ["rustc/cargo test on the scratch copy", "witness/standin_incremental.rs"],
    "explanation": "incremental maintenance on/off differential over bounded histories",
}

PROPS["C25"] = {
    "engine": "bounded-standin",
    "standin": ["standin_hnsw_history"],
    "verus": [],
    "kani": [],
    "level": "exploration",
    "level_text": "BOUNDED STAND-IN ONLY - nothing is proved for this property. HnswIndex keeps its state behind parking_lot::RwLock (Kani compiler ICE; no Verus specification), the graph is hnsw_rs (unsafe, rayon), save/load are files + serde. The real HnswIndex (Euclidean, dimension 2, ef 200) is driven through the Index trait with every history of length <= 4 (thorough 5) over 8 steps (insert/update of 3 identifiers, delete of 2, delete of an identifier never inserted, rebuild from the live entries, save + load into a new index) from two starting contents (empty; 4 entries, so that one delete stays below the auto-compaction threshold) and compared after every step with the model live = identifier -> latest vector: len() - tombstone_count() is the number of live identifiers; search with k above the index size returns exactly the live identifiers, each at its distance to its latest vector; dimension; tombstone_count() bounded by the deletes of present identifiers since the last rebuild; save + load preserves len, tombstone_count, dimension, configuration and every search answer.",
    "level_note": "bounded: <= 7 entries of dimension 2, Euclidean metric only, histories of <= 4 (thorough 5) steps; relies on the HNSW search being exhaustive at this size with ef = 200 (as the repository's own tests do); IndexManager and the incremental engine's UpdateIndex path are not exercised",
    "technique": "bounded stand-in tests on the real code (cargo test in a scratch copy of the working tree, module injected insert-only); the contract (state follows the history model) is evaluated on enumerated histories; labelled bounded, never counted as proved; no deductive obligation exists for this property",
    "aux_failure": "violation",
    "functions_under_contract": [],
    "assumptions": [
        "nothing is proved; the stated bound is the whole coverage",
        "with <= 7 points and ef = 200 the approximate search returns every stored point except very rarely (random level assignment; one miss observed in ~20000 runs): a failing history is re-run twice and reported only if it fails three times out of three",
        "the exact tombstone count 'implied by the history' depends on the auto-compaction policy; only len() - tombstone_count() == live and the upper bound are checked",
    ],
    "trusted_base": ["rustc/cargo test on the scratch copy", "witness/standin_hnsw_history.rs (model)"],
    "explanation": "vector index state vs. history model incl. save/load",
}

PROPS["C27"] = {
    "engine": "bounded-standin",
    "standin": ["standin_authz_programs"],
    "verus": [],
    "kani": [],
    "level": "exploration",
    "level_text": "BOUNDED STAND-IN ONLY - nothing is proved for this property. Authorization is inlined in the async Handler::execute_program and depends on string parsing of the whole program (outside both verifiers); the role lattice it consults is proved under C28. A real Handler with bootstrapped authentication, a knowledge graph kg1 (facts, a rule, a schema) and three non-admin users without write permission on it (global viewer + KG viewer; global editor + KG viewer; global editor without a KG role) submit, through Handler::execute_program, 7 state-changing statements (insert, bulk insert, delete, conditional delete, persistent rule, rule drop, schema declaration) wrapped in 14 program shapes (alone; after / before a query line; after a comment; after blank + comment lines; after a session rule; two writes; leading whitespace; after a continuation-line query; after a query with a trailing comment; after `.status` / `.rel list` / `.kg use kg1`; after a continuation-line rule with a comment): after every request base tuples, persistent rules and schemas of kg1 must be what they were. Control: a KG editor can write.",
    "level_note": "bounded: 7 statements x 14 shapes x 3 identities + 21 graph-switch programs = 315 requests; updates, session facts and meta commands other than those of C29 are not exercised",
    "technique": "bounded stand-in tests on the real code (cargo test in a scratch copy of the working tree, module injected insert-only); the contract (state unchanged / request refused) is evaluated on enumerated programs and identities; labelled bounded, never counted as proved; no deductive obligation exists for this property",
    "aux_failure": "violation",
    "functions_under_contract": [],
    "assumptions": [
        "nothing is proved; the stated bound is the whole coverage",
        "users and ACL entries are created through Handler::handle_user_create / handle_kg_acl_grant; HTTP/WebSocket authentication in front of execute_program is not exercised",
    ],
    "trusted_base": ["rustc/cargo test on the scratch copy", "witness/authz_common.rs"],
    "explanation": "no write without write permission, whatever the program shape",
}

PROPS["C29"] = {
    "engine": "bounded-standin",
    "standin": ["standin_internal_kg"],
    "verus": [],
    "kani": [],
    "level": "exploration",
    "level_text": "BOUNDED STAND-IN ONLY - nothing is proved for this property. Authorization is inlined in the async Handler::execute_program and depends on string parsing of the whole program (outside both verifiers); the role lattice it consults is proved under C28. The same three non-admin users submit 7 programs with the internal knowledge graph as the request's target (queries on users / kg_acls, inserts, deletes, with comments and after a query line) and 12 programs naming it in `.kg use/create/drop` alone and inside multi-line programs (after queries, comments, read-only meta commands; followed by reads or writes of users / kg_acls): every request with the internal graph as target must be refused, no request may return rows of it or switch the session to it, and its relations must be unchanged afterwards.",
    "level_note": "bounded: 19 programs x 3 identities; session re-binding through the WebSocket session manager is not exercised (session_id = None)",
    "technique": "bounded stand-in tests on the real code (cargo test in a scratch copy of the working tree, module injected insert-only); the contract (state unchanged / request refused) is evaluated on enumerated programs and identities; labelled bounded, never counted as proved; no deductive obligation exists for this property",
    "aux_failure": "violation",
    "functions_under_contract": [],
    "assumptions": [
        "nothing is proved; the stated bound is the whole coverage",
        "users and ACL entries are created through Handler::handle_user_create / handle_kg_acl_grant; HTTP/WebSocket authentication in front of execute_program is not exercised",
    ],
    "trusted_base": ["rustc/cargo test on the scratch copy", "witness/authz_common.rs"],
    "explanation": "internal knowledge graph unreachable for non-admins",
}

PROPS["C17"] = {
    "engine": "bounded-standin",
    "standin": ["standin_kg_isolation"],
    "verus": [],
    "kani": [],
    "level": "exploration",
    "level_text": "BOUNDED STAND-IN ONLY, SEQUENTIAL CLAUSES ONLY - nothing is proved for this property, and its interleaving clause (an insert racing a drop and re-create) is not covered at all: Kani has no threads, and startup discovery / shard deletion are std::fs call sequences outside both verifiers. One real StorageEngine with two knowledge graphs of adversarially similar names (`a`, `a_b`; relations `b_c`, `c`: the shards `a:b_c` and `a_b:c` differ only in where the separator stands) is driven with [create both] + every history of length <= 3 (thorough: + every 5th of length 4) over 11 steps (create / drop each graph, four inserts, a rule registration, save, restart) + [restart], each also run with the plain names `a`, `ab`, and compared after every step with the model graph -> (relation -> tuples, rules): a step on one graph never changes the other, and a dropped graph's data does not reappear after a restart or in a re-created graph of the same name.",
    "level_note": "bounded, sequential only: 2 graphs x 2 relations, histories of <= 3 (thorough: sampled 4) steps between a fixed prefix and a final restart; concurrency (the property's interleaving clause) NOT covered; empty graphs are not compared (whether an empty graph survives a restart is outside C17)",
    "technique": "bounded stand-in tests on the real code (cargo test in a scratch copy of the working tree, module injected insert-only); the contract (state follows the per-graph history model) is evaluated on enumerated sequential histories; labelled bounded, never counted as proved; no deductive obligation exists for this property",
    "aux_failure": "violation",
    "functions_under_contract": [],
    "assumptions": [
        "nothing is proved; the stated bound is the whole coverage; no concurrent schedule is explored",
        "a restart is dropping the StorageEngine and opening the same directory again (no crash points)",
    ],
    "trusted_base": ["rustc/cargo test on the scratch copy", "witness/standin_kg_isolation.rs (model)"],
    "explanation": "knowledge-graph isolation and drop finality over sequential histories",
}

PRE_HOOKS = {"coercion_table": _pre_coercion_table}

PROPS["C12"] = {
    "standin": ["standin_value_roundtrip"],
    "verus": [],
    "kani": ["coercion"],
    "pre": ["coercion_table"],
    "level": "proof",
    "level_text": "Kani/CBMC over the real Value accessors, data_type and ==, composed exactly as build_column_array / extract_value_from_array compose them (pairing generated from their match arms on every run): for each scalar column type, a value of the column's own kind, Null, and a value of every other scalar kind must come back == (same kind, same bits). Full bit-vector domain per kind (strings: 1 byte). This is the per-column coercion kernel of the batch-file path; WAL JSON encoding, vectors and the Arrow/Parquet libraries themselves are not covered. Two genuine defects are recorded as known findings with residual obligations. BOUNDED stand-in on the whole engine (not counted as proved): 14 relations (one per value kind incl. NaN/inf/-0.0 floats, Nulls in typed columns, an all-Null relation, f32/int8 vectors, four mixed-kind relations) inserted through StorageEngine, restarted with and without save, compared value for value and kind for kind.",
    "level_note": "trusted: Kani+CBMC; Arrow arrays return the Option<payload> they were built from; Parquet round-trips Arrow; the generator's reading of the two match statements (a changed arm it cannot read is exit 2)",
    "technique": "Kani proof harnesses injected as a child module of src/value/arrow_convert.rs in a scratch copy; accessor/constructor pairing generated from the source's match arms each run; plus always-run bounded stand-in tests on the real code for the clauses outside both verifiers (labelled bounded, never counted as proved)",
    "aux_failure": "violation",
    "functions_under_contract": ["src/value/mod.rs: Value::{data_type, as_i32, as_i64, as_f64, as_str, as_bool, as_timestamp}, <Value as PartialEq>::eq",
                                 "src/value/arrow_convert.rs: build_column_array, extract_value_from_array (match arms read mechanically, bodies not executed: Arrow arrays are outside CBMC's reach)"],
    "assumptions": [
        "an Arrow primitive/string/boolean array returns exactly the Option<payload> it was constructed from, and Parquet round-trips the Arrow batch (dependency contracts)",
        "vector columns (FixedSizeList/LargeList arms; zero padding of mismatching values) are not covered",
        "the JSON WAL encoding (Serialize/Deserialize for Value) is not covered: serde_json + format machinery is outside both verifiers",
        "that the store always reopens is not decided",
    ],
    "trusted_base": ["kani 0.68.0 + cbmc 6.11", "tools/gen_coercion.py (reads the match arms)"],
    "explanation": "per-column coercion kernel of the Parquet batch path",
}

PROPS["C03"] = {
    "standin": ["standin_workers"],
    "verus": ["codegen_guard"],
    "kani": ["codegen_guard"],
    "level": "proof",
    "level_text": "Unbounded Verus proof, by structural induction over the real IRNode, that CodeGenerator::contains_join (sliced from /repo each run) returns true for every plan containing an operator that does not distribute over input partitions (Join, JoinFlatMap, Antijoin, Aggregate) — i.e. partitioned multi-worker execution is only ever used on distributing plans. Kani executes the real function (including the real Iterator::any) on 12 concrete trees (BOUNDED companion; supplies replayable counterexamples). The DD executions themselves and the partitioning function are outside both verifiers: this decides the guard, the necessary condition on which C03 rests. BOUNDED stand-in on the whole engine (not counted as proved): 20 programs covering every operator class, incl. unions of aggregates, with 2/3/4/8 workers against 1 worker — this is what notices a change at the call site execute_with_config that bypasses the guard.",
    "level_note": "trusted: Verus+Z3, Kani+CBMC; assumed contract for Iterator::any on the Union arm; partition_data_for_worker assigns each tuple to exactly one worker; union of per-partition results equals the single-worker result for distributing plans (relational algebra, not checked)",
    "technique": "Verus postcondition on a recursive function extracted from /repo each run (erasure-checked, one listed substitution); Kani harnesses on concrete plan trees injected into a scratch copy; plus always-run bounded stand-in tests on the real code for the clauses outside both verifiers (labelled bounded, never counted as proved)",
    "aux_failure": "violation",
    "functions_under_contract": ["src/code_generator/mod.rs: CodeGenerator::contains_join", "src/ir/mod.rs: enum IRNode (verbatim)"],
    "assumptions": [
        "Iterator::any(f) is false only if f returned false on every element (assumed contract, Union arm; exercised concretely by two Kani trees)",
        "partition_data_for_worker puts every tuple in exactly one partition (HashMap + DefaultHasher: CBMC does not finish)",
        "for plans built only from Scan/HnswScan/Map/Filter/Union/Compute/FlatMap/Distinct the union of per-partition answers equals the single-worker answer (algebraic fact about those operators; their DD implementations are not verified)",
        "termination of contains_join is not proved (exec_allows_no_decreases_clause); partial correctness",
        "the recursive (fixpoint) execution path and IQLEngine::set_num_workers plumbing are not covered",
    ],
    "trusted_base": ["verus 0.2026.09.13 + z3", "kani 0.68.0 + cbmc 6.11"],
    "explanation": "partition-safety guard of multi-worker execution",
}

PROPS["C05"] = {
    "standin": ["standin_rewrites"],
    "verus": ["pushdown"],
    "kani": ["optimizer_helpers"],
    "level": "proof",
    "level_text": "Index remapping of the optimizer, the mechanism C05 names: (1) Verus, unbounded, on Optimizer::pushdown_filters, right_pushdown_offset and nth_non_key_column sliced from /repo each run — at the right-push site the pushed predicate reads, for every tested column, the right-input column that the join output (left ++ right non-key columns) shows at that position; (2) Kani on the real adjust_predicate_columns / get_predicate_columns for 26 scalar predicate variants over the full range of columns/offsets/constants (these are the contracts the Verus unit assumes) and on remap_projection_for_join_flatmap (BOUNDED: left<=3, right arity 4). The other rewrite passes (fuse_*, eliminate_*, join reordering, boolean specialization) and the statement 'every rewrite denotes the same relation' are not decided. BOUNDED stand-in on the whole pipeline (not counted as proved): 26 programs x 7 optimizer configurations must return the same relation (it found the join-planning defect over same-head rules that was repaired).",
    "level_note": "trusted: Verus+Z3, Kani+CBMC; the Join output layout (left ++ right non-key columns) is the contract taken from code_generator's join; output_schema().len() < 2^31; slice::contains is membership; HashMap-carrying predicate variants (ColumnCompareArith, ArithCompareConst) are outside the Kani harnesses; termination of pushdown_filters not proved",
    "technique": "Verus contracts + program-point obligation on functions extracted from /repo each run (erasure-checked, two listed closure-pattern substitutions); Kani harnesses for the assumed helper contracts; plus always-run bounded stand-in tests on the real code for the clauses outside both verifiers (labelled bounded, never counted as proved)",
    "aux_failure": "violation",
    "functions_under_contract": ["src/optimizer/mod.rs: Optimizer::pushdown_filters, right_pushdown_offset, nth_non_key_column (Verus); adjust_predicate_columns, get_predicate_columns, remap_projection_for_join_flatmap (Kani)", "src/ir/mod.rs: enum IRNode (verbatim)"],
    "assumptions": [
        "Join output = all left columns followed by the right columns that are not join keys (code_generator generate_join; stated as `shows_at`)",
        "IRNode::output_schema().len() < 2^31 (assumed contract; the function itself is not verified)",
        "get_predicate_columns / adjust_predicate_columns contracts are assumed in Verus and discharged by Kani for the 26 scalar variants; NOT for the recursive And/Or arms (CBMC does not finish) nor ColumnCompareArith / ArithCompareConst (HashMap<String,usize>, iteration order)",
        "slice::contains(x) <=> some element == x; usize is 64 bit",
        "pushdown_filters: partial correctness (exec_allows_no_decreases_clause)",
        "not decided: fuse_consecutive_maps, fuse_to_flatmap, fuse_to_join_flatmap call site, eliminate_*, Optimizer::optimize fixpoint, JoinPlanner::plan_joins/remap_predicate, BooleanSpecializer::specialize",
    ],
    "trusted_base": ["verus 0.2026.09.13 + z3", "kani 0.68.0 + cbmc 6.11"],
    "explanation": "index remapping at the filter push-down site and in the predicate/projection helpers",
}

PROPS["C33"] = {
    "standin": ["standin_validator", "standin_schema_e2e"],
    "verus": ["matches"],
    "kani": ["validator"],
    "level": "proof",
    "level_text": "Conformance: unbounded Verus proof that SchemaType::matches (and the storage-level DataType::matches), sliced from /repo each run together with the real Value/DataType/SchemaType definitions, equal the type table for EVERY value incl. every vector dimension. Enforcement: Kani on the real ValidationEngine::validate_batch/validate_tuple — accepted iff every tuple has the schema's arity and every value matches — BOUNDED (1 tuple x 1 column in quick; 2 tuples and arity mismatch in thorough) and therefore not counted as proved. That every insert path calls the validator is not decided. BOUNDED stand-in (not counted as proved): batches of 1..1000 tuples over an (int, string, vector(2)) schema with one bad tuple of 8 kinds at the first/middle/last position.",
    "level_note": "trusted: Verus+Z3, Kani+CBMC; the type table `conforms` is the spec's reading of docs/spec/types.md plus the documented int->float and int-as-timestamp coercions; alloc::fmt::format stubbed in the Kani harnesses; handler call sites not covered",
    "technique": "Verus postconditions on functions extracted from /repo each run (bodies filled in by the extractor, erasure-checked); Kani bounded harnesses on the validator injected into a scratch copy; plus always-run bounded stand-in tests on the real code for the clauses outside both verifiers (labelled bounded, never counted as proved)",
    "aux_failure": "violation",
    "functions_under_contract": ["src/schema/mod.rs: SchemaType::matches", "src/value/mod.rs: DataType::matches; enum Value, enum DataType (verbatim)", "src/schema/validator.rs: ValidationEngine::validate_batch, validate_tuple (Kani, bounded)"],
    "assumptions": [
        "the conformance table (`conforms`) is the specification of the type system: int accepts Int32/Int64, float also accepts ints, timestamp also accepts Int64, vector(n) accepts f32 and int8 vectors of length n, any/named accept everything, Null conforms only to any/named",
        "validate_batch beyond 2 tuples x 1 column is not explored (CBMC: 70 s for 1x1, 8 min for 2x1)",
        "alloc::fmt::format does not influence control flow (stubbed)",
        "that Handler::query_program and the session insert path call validate_batch before storing is not decided (async handler)",
    ],
    "trusted_base": ["verus 0.2026.09.13 + z3", "kani 0.68.0 + cbmc 6.11"],
    "explanation": "type conformance table + all-or-nothing validator",
}

PROPS["C26"] = {
    "standin": ["standin_vector_laws"],
    "verus": ["lsh"],
    "kani": ["vector_ops"],
    "level": "proof",
    "level_text": "Probe-sequence clause: unbounded Verus proof on lsh_probes (sliced from /repo each run) — at most num_probes entries, first is the bucket, every entry is the bucket with a valid 0..3-bit flip below min(num_hyperplanes,62), strictly increasing in (flip count, positions), hence pairwise distinct and non-decreasing in flip count; Kani links flip count to the real hamming_distance for every bucket/positions and proves the hamming/abs laws over full domains. Float laws (manhattan, euclidean, cosine range) are Kani harnesses over every finite f32 at FIXED dimension 1–2: BOUNDED, not counted as proved. Not decided: quantize/dequantize error, cosine symmetry and self-distance, LSH bucket independence from the hyperplane cache under concurrency. BOUNDED stand-in (not counted as proved): distance laws, cosine range and exact self-distance, symmetric int8 quantisation error on 480 pseudo-random vector pairs of dimension 0..33 incl. huge/tiny/zero elements; lsh_bucket unchanged across cache clear / eviction / resize (sequential).",
    "level_note": "trusted: Verus+Z3, Kani+CBMC incl. CBMC's float and sqrt models (float counterexamples are replayed on the real code before they count); lsh_probes' contract fixes the enumeration order inside a flip class (stronger than the property)",
    "technique": "Verus loop invariants with a ghost witness on a function extracted from /repo each run (erasure-checked); Kani harnesses injected into a scratch copy; plus always-run bounded stand-in tests on the real code for the clauses outside both verifiers (labelled bounded, never counted as proved)",
    "aux_failure": "violation",
    "functions_under_contract": ["src/vector_ops.rs: lsh_probes (Verus)", "src/vector_ops.rs: hamming_distance, abs_i64, abs_f64, manhattan_distance, euclidean_distance, euclidean_distance_squared, cosine_distance, cosine_distance_checked (Kani)"],
    "assumptions": [
        "float laws only at dimension 1–2 (every finite bit pattern); higher dimensions not explored",
        "cosine_distance(a,a) == 0 and cosine symmetry: CBMC gives no result (30–40 min) — covered only by the bounded stand-in (self-distance was ~2e-16 at dimension >= 2 before the repair)",
        "quantize_vector_linear / minmax error bound not decided (no inverse with the same scale is exposed); symmetric quantisation only in the bounded stand-in",
        "LSH bucket independence from the global RwLock LRU hyperplane cache under CONCURRENT use: threads — not decided (sequential clear/evict/resize only, bounded)",
        "lsh_probes: 1i64 << bit with bit < 62 (from num_hyperplanes.min(62)); the witness order is lexicographic in flipped positions",
    ],
    "trusted_base": ["verus 0.2026.09.13 + z3", "kani 0.68.0 + cbmc 6.11 (float/sqrt models)"],
    "explanation": "probe sequence structure + bit/abs laws + small-dimension float laws",
}
