"""Minimal Rust lexer + item locator used by the extractor.

Tokens are (kind, text, start, end) with kinds:
  ws, lcomment (// incl. doc), bcomment (/* */ nested), str, char, lifetime, ident, num, punct
Only what the extractor needs: correct skipping of strings / raw strings / chars / lifetimes /
nested block comments so that brace matching is exact.
"""
import re
from collections import namedtuple

Tok = namedtuple("Tok", "kind text start end")

_ident_re = re.compile(r"[A-Za-z_][A-Za-z0-9_]*")
_num_re = re.compile(r"[0-9][0-9A-Za-z_]*(\.[0-9][0-9A-Za-z_]*)?([eE][+-]?[0-9_]+)?[A-Za-z0-9_]*")
_raw_re = re.compile(r"(b|c)?r(#*)\"")
PUNCT3 = ("<<=", ">>=", "...", "..=")
PUNCT2 = ("::", "->", "=>", "==", "!=", "<=", ">=", "&&", "||", "+=", "-=", "*=", "/=", "%=",
          "^=", "&=", "|=", "<<", ">>", "..")


class LexError(Exception):
    pass


def lex(src):
    toks = []
    i, n = 0, len(src)
    while i < n:
        c = src[i]
        if c.isspace():
            j = i + 1
            while j < n and src[j].isspace():
                j += 1
            toks.append(Tok("ws", src[i:j], i, j)); i = j; continue
        if src.startswith("//", i):
            j = src.find("\n", i)
            j = n if j < 0 else j
            toks.append(Tok("lcomment", src[i:j], i, j)); i = j; continue
        if src.startswith("/*", i):
            depth, j = 1, i + 2
            while j < n and depth:
                if src.startswith("/*", j):
                    depth += 1; j += 2
                elif src.startswith("*/", j):
                    depth -= 1; j += 2
                else:
                    j += 1
            if depth:
                raise LexError("unterminated block comment at %d" % i)
            toks.append(Tok("bcomment", src[i:j], i, j)); i = j; continue
        m = _raw_re.match(src, i)
        if m:
            hashes = m.group(2)
            close = '"' + hashes
            j = src.find(close, m.end())
            if j < 0:
                raise LexError("unterminated raw string at %d" % i)
            j += len(close)
            toks.append(Tok("str", src[i:j], i, j)); i = j; continue
        if c == '"' or (c in "bc" and i + 1 < n and src[i + 1] == '"'):
            j = i + (1 if c == '"' else 2)
            while j < n and src[j] != '"':
                j += 2 if src[j] == "\\" else 1
            if j >= n:
                raise LexError("unterminated string at %d" % i)
            j += 1
            toks.append(Tok("str", src[i:j], i, j)); i = j; continue
        if c == "'" or (c == "b" and i + 1 < n and src[i + 1] == "'"):
            k = i + (1 if c == "'" else 2)
            # char literal: 'x' or '\..' ; lifetime: 'ident not followed by '
            if k < n and src[k] == "\\":
                j = k + 2
                while j < n and src[j] != "'":
                    j += 1
                j += 1
                toks.append(Tok("char", src[i:j], i, j)); i = j; continue
            if k + 1 < n and src[k + 1] == "'":
                j = k + 2
                toks.append(Tok("char", src[i:j], i, j)); i = j; continue
            m2 = _ident_re.match(src, k)
            if m2 and c == "'":
                j = m2.end()
                toks.append(Tok("lifetime", src[i:j], i, j)); i = j; continue
            # multibyte char literal like 'é'
            j = src.find("'", k)
            if j < 0:
                raise LexError("bad quote at %d" % i)
            j += 1
            toks.append(Tok("char", src[i:j], i, j)); i = j; continue
        m = _ident_re.match(src, i)
        if m:
            j = m.end()
            toks.append(Tok("ident", src[i:j], i, j)); i = j; continue
        if c.isdigit():
            m = _num_re.match(src, i)
            j = m.end()
            # do not swallow a range `0..n` or method call `1.max(..)`
            txt = src[i:j]
            if "." in txt:
                dot = txt.index(".")
                after = txt[dot + 1:dot + 2]
                if not after.isdigit():
                    j = i + dot
            # `0..n` : num_re would take "0." only if followed by digit, fine
            toks.append(Tok("num", src[i:j], i, j)); i = j; continue
        for p in PUNCT3:
            if src.startswith(p, i):
                toks.append(Tok("punct", p, i, i + 3)); i += 3; break
        else:
            for p in PUNCT2:
                if src.startswith(p, i):
                    toks.append(Tok("punct", p, i, i + 2)); i += 2; break
            else:
                toks.append(Tok("punct", c, i, i + 1)); i += 1
    return toks


def code_tokens(src_or_toks):
    """Significant tokens only (no whitespace, no comments)."""
    toks = lex(src_or_toks) if isinstance(src_or_toks, str) else src_or_toks
    return [t for t in toks if t.kind not in ("ws", "lcomment", "bcomment")]


def code_texts(src):
    """Token text stream with `>>`-style puncts split so formatting cannot matter."""
    out = []
    for t in code_tokens(src):
        if t.kind == "punct" and t.text in (">>", "<<", ">>=", "<<=", ">=", "<=", "->", "=>", "&&", "||", "..", "...", "..=", "::"):
            out.extend(list(t.text))
        else:
            out.append(t.text)
    return out


OPEN = {"(": ")", "[": "]", "{": "}"}
CLOSE = {")": "(", "]": "[", "}": "{"}


def match_close(ct, i):
    """ct: code tokens; i: index of an opening bracket token. Returns index of its closer."""
    assert ct[i].text in OPEN
    depth = 0
    for j in range(i, len(ct)):
        t = ct[j]
        if t.kind == "punct":
            if t.text in OPEN:
                depth += 1
            elif t.text in CLOSE:
                depth -= 1
                if depth == 0:
                    return j
    raise LexError("unbalanced bracket at offset %d" % ct[i].start)


def first_body_brace(ct, i):
    """Index of the first `{` at bracket depth 0 at or after token index i."""
    depth = 0
    j = i
    while j < len(ct):
        t = ct[j]
        if t.kind == "punct":
            if t.text == "{" and depth == 0:
                return j
            if t.text in OPEN:
                depth += 1
            elif t.text in CLOSE:
                depth -= 1
        j += 1
    raise LexError("no body brace after offset %d" % ct[i].start)


def _line_start(src, pos):
    k = src.rfind("\n", 0, pos)
    return k + 1


def _qual_start(ct, i):
    """Walk back from keyword token index i over visibility / qualifiers; return token index."""
    j = i
    while j > 0:
        p = ct[j - 1]
        if p.kind == "ident" and p.text in ("pub", "async", "const", "unsafe", "extern", "default"):
            j -= 1; continue
        if p.kind == "punct" and p.text == ")":
            # pub(crate) / pub(super)
            k = j - 1
            while k > 0 and ct[k].text != "(":
                k -= 1
            if k > 0 and ct[k - 1].kind == "ident" and ct[k - 1].text == "pub":
                j = k - 1; continue
        break
    return j


class ItemNotFound(Exception):
    pass


def find_impl_blocks(src, ct, header):
    """All (open_idx, close_idx) of `impl <header> {` blocks; header compared on token texts."""
    want = code_texts(header)
    res = []
    for i, t in enumerate(ct):
        if t.kind == "ident" and t.text == "impl":
            try:
                b = first_body_brace(ct, i + 1)
            except LexError:
                continue
            got = []
            for x in ct[i + 1:b]:
                if x.kind == "punct" and len(x.text) > 1 and x.text in ("::", ">>", "<<", "->"):
                    got.extend(list(x.text))
                else:
                    got.append(x.text)
            # drop a where clause from comparison
            if "where" in got:
                got = got[:got.index("where")]
            if got == want:
                res.append((b, match_close(ct, b)))
    return res


def find_fn(src, path):
    """path: 'name' or 'impl HEADER :: name'. Returns (start_offset, end_offset) of the fn item,
    starting at its visibility qualifier and ending after the closing brace."""
    ct = code_tokens(src)
    parts = [p.strip() for p in path.split(" :: ")]
    name = parts[-1]
    ranges = [(0, len(ct) - 1, 0)]
    if len(parts) == 2:
        hdr = parts[0]
        assert hdr.startswith("impl "), hdr
        blocks = find_impl_blocks(src, ct, hdr[5:])
        if not blocks:
            raise ItemNotFound("no `%s` block" % hdr)
        ranges = [(a, b, 1) for a, b in blocks]
    hits = []
    for a, b, want_depth in ranges:
        depth = 0
        j = a
        while j <= b:
            t = ct[j]
            if t.kind == "punct":
                if t.text == "{":
                    depth += 1
                elif t.text == "}":
                    depth -= 1
            if (t.kind == "ident" and t.text == "fn" and depth == want_depth and j + 1 <= b
                    and ct[j + 1].kind == "ident" and ct[j + 1].text == name):
                s = _qual_start(ct, j)
                ob = first_body_brace(ct, j + 2)
                cb = match_close(ct, ob)
                hits.append((ct[s].start, ct[cb].end))
                j = cb
                depth = want_depth
            j += 1
    if not hits:
        raise ItemNotFound("fn %s" % path)
    if len(hits) > 1:
        raise ItemNotFound("fn %s is ambiguous (%d matches)" % (path, len(hits)))
    return hits[0]


def find_type_item(src, kind, name):
    """kind in enum/struct. Returns (start, end) from the visibility qualifier to `}` or `;`."""
    ct = code_tokens(src)
    for i, t in enumerate(ct):
        if t.kind == "ident" and t.text == kind and i + 1 < len(ct) and ct[i + 1].text == name:
            # must be at item level: previous significant token is not `::` / `.`
            s = _qual_start(ct, i)
            j = i + 2
            depth = 0
            while j < len(ct):
                x = ct[j]
                if x.kind == "punct":
                    if x.text == "{" and depth == 0:
                        cb = match_close(ct, j)
                        return ct[s].start, ct[cb].end
                    if x.text == ";" and depth == 0:
                        return ct[s].start, ct[j].end
                    if x.text in ("(", "[", "<"):
                        depth += 1
                    elif x.text in (")", "]", ">"):
                        depth -= 1
                j += 1
    raise ItemNotFound("%s %s" % (kind, name))


def strip_comments_and_attrs(text):
    """Remove comments and #[...] / #![...] attributes (used for type definitions)."""
    toks = lex(text)
    out = []
    i = 0
    while i < len(toks):
        t = toks[i]
        if t.kind in ("lcomment", "bcomment"):
            i += 1; continue
        if t.kind == "punct" and t.text == "#":
            j = i + 1
            while j < len(toks) and toks[j].kind == "ws":
                j += 1
            if j < len(toks) and toks[j].text == "!":
                j += 1
            if j < len(toks) and toks[j].text == "[":
                depth = 0
                while j < len(toks):
                    if toks[j].kind == "punct" and toks[j].text == "[":
                        depth += 1
                    elif toks[j].kind == "punct" and toks[j].text == "]":
                        depth -= 1
                        if depth == 0:
                            break
                    j += 1
                i = j + 1
                continue
        out.append(t.text)
        i += 1
    txt = "".join(out)
    # drop lines that became empty
    return "\n".join(l.rstrip() for l in txt.split("\n") if l.strip()) + "\n"
