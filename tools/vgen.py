"""Generate a Verus unit from /repo's current source text and a contract overlay (.spec template).

The overlay is a Verus source file in which code from /repo enters only through directives:

  //@item <file> :: enum|struct <Name> [:: derive(A, B, ...)]
        the type definition is sliced out of <file> on every run (comments and attributes dropped;
        an explicit derive list may be given).
  //@stub A B C
        opaque `#[verifier::external_body] pub struct` for types the proof must not look into.
  //@fn <file> :: [impl HEADER ::] name            ... //@end
  //@region <file> :: [impl HEADER ::] name :: seg "<line prefix>" .. "<line prefix>" | seg "<line prefix>" .. brace  (repeatable)   ... //@end
        the block holds the *annotated* text of the function (or statement region) as it was when the
        contract was written.  Lines starting with `/*@*/` are ghost insertions (requires / ensures /
        invariant / decreases / proof blocks / asserts / ghost lets / attributes); lines starting with
        `/*@w*/` (regions only) are the wrapper that turns the region into a function.  Every other
        line is repository code and is *never trusted*: on each run the function is sliced out of the
        current /repo text, normalised (body braces of the fn and of every loop on their own line),
        and the ghost lines are re-attached to it by a line alignment (difflib).  If the repository
        text has changed, the changed lines replace the old ones and the ghost lines keep their
        position relative to unchanged neighbours; ghost lines whose neighbourhood disappeared are a
        LostAnchor (exit 2).  Directive ghost lines:
            /*@*/ //!ret r         rewrite the fn's `-> T` to `-> (r: T)`
            /*@*/ //!iter it       name the ghost iterator of the next `for`: `for x in it: e`
            /*@*/ //!subst A => B  token-level rewrite of the next code line (listed in evidence)

  Erasure check (soundness of "the verified text is the code that runs"): after generation, all
  ghost/wrapper lines are removed again, the ret/iter/subst rewrites are undone at token level, and
  the token stream (whitespace and comments ignored) must equal the token stream of the text sliced
  from /repo.  A mismatch is exit 2, never a verdict.
"""
import difflib
import hashlib
import os
import re
import sys

sys.path.insert(0, os.path.dirname(os.path.abspath(__file__)))
import rustlex as rl  # noqa: E402

GH = "/*@*/"
WR = "/*@w*/"


class GenError(Exception):
    """Tooling failure (lost anchor, item not found, erasure mismatch) -> exit 2."""


def sha(text):
    return hashlib.sha256(text.encode()).hexdigest()[:16]


# ----------------------------------------------------------------------------- normalisation

def dedent(text):
    lines = text.split("\n")
    ind = None
    for l in lines[1:]:
        if l.strip():
            k = len(l) - len(l.lstrip())
            ind = k if ind is None else min(ind, k)
    # first line starts at the item keyword (already without indentation)
    if ind is None:
        return text
    # the first line had `base` indentation in the file; lines[1:] share it
    out = [lines[0]]
    # indentation of closing brace == indentation of first line in file
    last = lines[-1]
    base = len(last) - len(last.lstrip()) if last.strip() else 0
    for l in lines[1:]:
        out.append(l[base:] if l[:base].strip() == "" else l.lstrip())
    return "\n".join(out)


def normalise(text, is_fn=True):
    """Put the body `{` of the fn and of every loop on its own line (whitespace-only change)."""
    text = dedent(text)
    toks = rl.lex(text)
    ct = [t for t in toks if t.kind not in ("ws", "lcomment", "bcomment")]
    brace_positions = []
    for i, t in enumerate(ct):
        if t.kind != "ident":
            continue
        if t.text == "fn" and is_fn and i + 1 < len(ct) and ct[i + 1].kind == "ident":
            # only the item's own fn (first fn token) — nested fns are left alone
            if not brace_positions or True:
                try:
                    b = rl.first_body_brace(ct, i + 2)
                except rl.LexError:
                    continue
                if not any(p[0] == "fn" for p in brace_positions):
                    brace_positions.append(("fn", ct[i].start, ct[b].start))
        elif t.text in ("for", "while", "loop"):
            if t.text == "for" and i + 1 < len(ct) and ct[i + 1].text == "<":
                continue  # for<'a> bound
            if i > 0 and ct[i - 1].kind == "punct" and ct[i - 1].text in (".", "::"):
                continue
            try:
                b = rl.first_body_brace(ct, i + 1)
            except rl.LexError:
                continue
            brace_positions.append(("loop", ct[i].start, ct[b].start))
    # apply from the end so offsets stay valid
    for kind, kw, bpos in sorted(brace_positions, key=lambda p: -p[2]):
        ls = text.rfind("\n", 0, kw) + 1
        indent = re.match(r"[ \t]*", text[ls:]).group(0)
        # strip whitespace before the brace
        k = bpos
        while k > 0 and text[k - 1] in " \t":
            k -= 1
        if k > 0 and text[k - 1] == "\n":
            continue  # already on its own line
        text = text[:k] + "\n" + indent + text[bpos:]
    return text


# ----------------------------------------------------------------------------- slicing from /repo

def read_repo(repo, rel):
    p = os.path.join(repo, rel)
    if not os.path.isfile(p):
        raise GenError("source file missing: %s" % rel)
    with open(p, encoding="utf-8") as f:
        return f.read()


def slice_fn(repo, rel, path):
    src = read_repo(repo, rel)
    try:
        a, b = rl.find_fn(src, path)
    except (rl.ItemNotFound, rl.LexError) as e:
        raise GenError("cannot locate fn `%s` in %s: %s" % (path, rel, e))
    ls = src.rfind("\n", 0, a) + 1
    # keep the original indentation context for dedent: prefix the line's indentation
    raw = src[a:b]
    indent = src[ls:a]
    if indent.strip() == "":
        body = raw
    else:
        body = raw
    # make subsequent lines relative to the fn's indentation
    lines = body.split("\n")
    il = len(indent) if indent.strip() == "" else 0
    lines = [lines[0]] + [(l[il:] if l[:il].strip() == "" else l.lstrip()) for l in lines[1:]]
    return "\n".join(lines)


def slice_region(repo, rel, path, segs):
    """segs: list of (from_prefix, to_prefix|None). Each segment runs from the unique line starting with
    from_prefix to the first later line starting with to_prefix (inclusive), or — to_prefix None — to the
    brace matching the first `{` at or after the start line.  Segments are concatenated in order; the
    text between them is dropped (stated in evidence)."""
    fn_text = slice_fn(repo, rel, path)
    lines = fn_text.split("\n")
    out = []
    last_end = -1
    for frm, to in segs:
        after = frm.startswith("after:")
        if after:
            frm = frm[len("after:"):]
        starts = [i for i, l in enumerate(lines) if l.strip().startswith(frm)]
        if len(starts) != 1:
            raise GenError("region start `%s` matches %d lines in %s" % (frm, len(starts), path))
        s = starts[0] + (1 if after else 0)
        if s <= last_end:
            raise GenError("region segments out of order in %s" % path)
        if to is None:
            rest = "\n".join(lines[s:])
            ct = rl.code_tokens(rest)
            ob = rl.first_body_brace(ct, 0)
            cb = rl.match_close(ct, ob)
            seg = rest[:ct[cb].end].split("\n")
            e = s + len(seg) - 1
        elif to == "end:":
            e = len(lines) - 2      # last line before the fn's closing brace
            while e > s and not lines[e].strip():
                e -= 1
            seg = lines[s:e + 1]
        elif to.startswith("before:"):
            q = to[len("before:"):]
            ends = [i for i, l in enumerate(lines) if i >= s and l.strip().startswith(q)]
            if not ends:
                raise GenError("region end `%s` not found in %s" % (q, path))
            e = ends[0] - 1
            while e > s and not lines[e].strip():
                e -= 1
            seg = lines[s:e + 1]
        else:
            ends = [i for i, l in enumerate(lines) if i >= s and l.strip().startswith(to)]
            if not ends:
                raise GenError("region end `%s` not found in %s" % (to, path))
            e = ends[0]
            seg = lines[s:e + 1]
        while seg and not seg[0].strip():
            seg = seg[1:]
        ind = len(seg[0]) - len(seg[0].lstrip())
        seg = [(l[ind:] if l[:ind].strip() == "" else l.lstrip()) for l in seg]
        out.extend(seg)
        last_end = e
    return "\n".join(out)


def slice_type(repo, rel, kind, name, derive):
    src = read_repo(repo, rel)
    try:
        a, b = rl.find_type_item(src, kind, name)
    except (rl.ItemNotFound, rl.LexError) as e:
        raise GenError("cannot locate %s %s in %s: %s" % (kind, name, rel, e))
    raw = src[a:b]
    txt = rl.strip_comments_and_attrs(raw)
    if derive:
        txt = "#[derive(%s)]\n" % derive + txt
    return raw, txt


# ----------------------------------------------------------------------------- ghost re-attachment

def split_block(block_lines):
    """-> (code_lines, gaps) where gaps[k] = ghost/wrapper lines before code line k."""
    code, gaps, cur = [], [], []
    for l in block_lines:
        s = l.lstrip()
        if s.startswith(GH) or s.startswith(WR):
            cur.append(l)
        else:
            gaps.append(cur); cur = []
            code.append(l)
    gaps.append(cur)
    return code, gaps


def _insignificant(l):
    t = l.strip()
    return t == "" or t.startswith("//")


def reattach(code_base, gaps, cur_lines, what):
    """Align on significant lines only (blank and comment-only lines of either side do not take part): comment
    edits cannot move or lose annotations.  Insignificant current lines are emitted just before the next
    significant current line; insignificant base lines vanish (their ghost lines move to the next code line)."""
    # fold base: ghost lines in front of an insignificant base line are carried to the next significant one
    b_sig, b_gaps, carry = [], [], []
    for k, l in enumerate(code_base):
        if _insignificant(l):
            carry.extend(gaps[k])
        else:
            b_sig.append(l); b_gaps.append(carry + gaps[k]); carry = []
    b_gaps.append(carry + gaps[len(code_base)])
    c_sig, c_pre, pend = [], [], []
    for l in cur_lines:
        if _insignificant(l):
            pend.append(l)
        else:
            c_sig.append(l); c_pre.append(pend); pend = []
    c_tail = pend
    a = [l.strip() for l in b_sig]
    b = [l.strip() for l in c_sig]
    sm = difflib.SequenceMatcher(None, a, b, autojunk=False)
    out = []
    changed = []

    def emit_cur(j):
        out.extend(c_pre[j]); out.append(c_sig[j])

    for tag, i1, i2, j1, j2 in sm.get_opcodes():
        if tag == "equal":
            for m in range(i2 - i1):
                out.extend(b_gaps[i1 + m]); emit_cur(j1 + m)
        elif tag == "replace":
            changed.append((b_sig[i1:i2], c_sig[j1:j2]))
            if i2 - i1 == j2 - j1:
                for m in range(i2 - i1):
                    out.extend(b_gaps[i1 + m]); emit_cur(j1 + m)
            else:
                inner = [g for k in range(i1 + 1, i2) for g in b_gaps[k]]
                if inner:
                    raise GenError("lost anchor in %s: annotated lines %r were rewritten" % (what, a[i1:i2][:3]))
                out.extend(b_gaps[i1])
                for j in range(j1, j2):
                    emit_cur(j)
        elif tag == "delete":
            changed.append((b_sig[i1:i2], []))
            inner = [g for k in range(i1 + 1, i2) for g in b_gaps[k]]
            if inner:
                raise GenError("lost anchor in %s: annotated lines %r were deleted" % (what, a[i1:i2][:3]))
            out.extend(b_gaps[i1])
        elif tag == "insert":
            changed.append(([], c_sig[j1:j2]))
            for j in range(j1, j2):
                emit_cur(j)
    out.extend(b_gaps[len(b_sig)])
    out.extend(c_tail)
    return out, changed


def infer_renames(changed, base_text):
    """A local that was consistently renamed in the repository (`bit_offset` -> `off`) is renamed in the ghost
    lines too.  Heuristic only: soundness rests on the erasure check and on Verus."""
    ren = {}
    base_idents = {t.text for t in rl.code_tokens(base_text) if t.kind == "ident"}
    for old, new in changed:
        if len(old) != len(new):
            continue
        for lo, ln in zip(old, new):
            try:
                to, tn = rl.code_tokens(lo), rl.code_tokens(ln)
            except rl.LexError:
                continue
            if len(to) != len(tn):
                continue
            for a, b in zip(to, tn):
                if a.kind == "ident" and b.kind == "ident" and a.text != b.text:
                    if b.text in base_idents or ren.get(a.text, b.text) != b.text:
                        return {}
                    ren[a.text] = b.text
                elif a.text != b.text:
                    break
    return ren


def rename_idents(line, ren):
    out = []
    for t in rl.lex(line):
        out.append(ren.get(t.text, t.text) if t.kind == "ident" else t.text)
    return "".join(out)


# ----------------------------------------------------------------------------- directives

_DIR = re.compile(r"^\s*/\*@\*/\s*//!(\w+)\s*(.*)$")


def apply_directives(lines, log):
    """Apply //!ret //!iter //!subst directive ghost lines to the code that follows them."""
    out = list(lines)
    i = 0
    while i < len(out):
        m = _DIR.match(out[i])
        if not m:
            i += 1; continue
        kind, arg = m.group(1), m.group(2).strip()
        del out[i]
        if kind == "ret":
            _apply_ret(out, i, arg)
        elif kind == "iter":
            _apply_iter(out, i, arg)
        elif kind == "subst":
            a, b = [x.strip() for x in arg.split("=>")]
            k = i
            while k < len(out) and (out[k].lstrip().startswith(GH) or a not in out[k]):
                k += 1
            if k >= len(out):
                raise GenError("subst anchor `%s` not found" % a)
            out[k] = out[k].replace(a, b)
            log.append({"subst": [a, b], "line": out[k].strip()})
        else:
            raise GenError("unknown directive //!%s" % kind)
    return out


def _is_ghost(l):
    s = l.lstrip()
    return s.startswith(GH) or s.startswith(WR)


def _apply_ret(out, i, name):
    # find `->` at bracket depth 0 (depth tracked across the signature's lines) before the body `{` line
    depth = 0
    k = i
    while k < len(out):
        if not _is_ghost(out[k]):
            line = out[k]
            if line.strip() == "{":
                raise GenError("//!ret: fn has no return type")
            pos = None
            for t in rl.lex(line):
                if t.kind == "punct":
                    if t.text in ("(", "[", "<"):
                        depth += 1
                    elif t.text in (")", "]", ">"):
                        depth -= 1
                    elif t.text == "->" and depth == 0:
                        pos = t.start
                        break
            if pos is not None:
                head, ty = line[:pos], line[pos + 2:]
                w = re.search(r"\swhere\b", ty)
                tail = ""
                if w:
                    ty, tail = ty[:w.start()], ty[w.start():]
                out[k] = "%s-> (%s: %s)%s" % (head, name, ty.strip(), tail)
                return
        k += 1
    raise GenError("//!ret: no `->` found")


def _top_level_arrow(line):
    depth = 0
    toks = rl.lex(line)
    for t in toks:
        if t.kind == "punct":
            if t.text in ("(", "[", "<"):
                depth += 1
            elif t.text in (")", "]", ">"):
                depth -= 1
            elif t.text == "->" and depth == 0:
                return t.start
    return None


def _apply_iter(out, i, name):
    k = i
    while k < len(out):
        if not _is_ghost(out[k]):
            toks = rl.lex(out[k])
            ct = [t for t in toks if t.kind not in ("ws", "lcomment", "bcomment")]
            if ct and ct[0].kind == "lifetime" and len(ct) > 2:
                ct = ct[2:]
            if ct and ct[0].text == "for":
                depth = 0
                for t in ct[1:]:
                    if t.kind == "punct" and t.text in ("(", "["):
                        depth += 1
                    elif t.kind == "punct" and t.text in (")", "]"):
                        depth -= 1
                    elif t.kind == "ident" and t.text == "in" and depth == 0:
                        out[k] = out[k][:t.end] + " %s:" % name + out[k][t.end:]
                        return
                raise GenError("//!iter: no `in` in for header")
        k += 1
    raise GenError("//!iter: no following `for`")


# ----------------------------------------------------------------------------- erasure

def erase(lines, substs):
    code = [l for l in lines if not _is_ghost(l)]
    text = "\n".join(code)
    for a, b in substs:
        text = text.replace(b, a)
    ct = rl.code_tokens(text)
    out = []
    i = 0
    n = len(ct)
    while i < n:
        t = ct[i]
        # undo `-> (r: T)`
        if (t.text == "->" and i + 3 < n and ct[i + 1].text == "(" and ct[i + 2].kind == "ident"
                and ct[i + 3].text == ":"):
            close = rl.match_close(ct, i + 1)
            nxt = ct[close + 1].text if close + 1 < n else ""
            if nxt in ("{", "where"):
                out.extend(["-", ">"])
                out.extend(_texts(ct[i + 4:close]))
                i = close + 1
                continue
        # undo `for x in it: e`
        if t.kind == "ident" and t.text == "in" and i + 2 < n and ct[i + 1].kind == "ident" and ct[i + 2].text == ":":
            out.append("in"); i += 3; continue
        out.extend(_texts([t]))
        i += 1
    return out


_SPLIT = (">>", "<<", ">>=", "<<=", ">=", "<=", "->", "=>", "&&", "||", "..", "...", "..=", "::")


def _texts(ct):
    out = []
    for t in ct:
        if t.kind == "punct" and t.text in _SPLIT:
            out.extend(list(t.text))
        else:
            out.append(t.text)
    return out


# ----------------------------------------------------------------------------- template processing

def generate(spec_path, repo, vacuity=False):
    """Returns (verus_source_text, report) ; raises GenError."""
    with open(spec_path, encoding="utf-8") as f:
        tl = f.read().split("\n")
    out = []
    consts_done = {}
    report = {"items": [], "changed_vs_contract_time": [], "substitutions": [], "dropped": [
        "doc comments and attributes on extracted type definitions (#[derive] replaced as listed)",
        "whitespace: body braces of contracted fns/loops moved to their own line"]}
    i = 0
    while i < len(tl):
        l = tl[i]
        s = l.strip()
        if s.startswith("//@item "):
            parts = [p.strip() for p in s[len("//@item "):].split(" :: ")]
            rel, kn = parts[0], parts[1]
            kind, name = kn.split()
            derive = None
            for p in parts[2:]:
                m = re.match(r"derive\((.*)\)$", p)
                if m:
                    derive = m.group(1)
            raw, txt = slice_type(repo, rel, kind, name, derive)
            # erasure check: token streams equal modulo attrs/comments
            want = rl.code_texts(rl.strip_comments_and_attrs(raw))
            got = rl.code_texts(rl.strip_comments_and_attrs(txt))
            if want != got:
                raise GenError("erasure mismatch on %s %s" % (kind, name))
            out.append(txt.rstrip("\n"))
            report["items"].append({"item": "%s %s" % (kind, name), "file": rel, "sha256_16": sha(raw),
                                    "mode": "verbatim type definition", "derive": derive})
            i += 1
            continue
        if s.startswith("//@stub "):
            for nm in s[len("//@stub "):].split():
                out.append("#[verifier::external_body] pub struct %s { _p: u8 }" % nm)
            report["items"].append({"item": "stubs " + s[len("//@stub "):], "mode": "opaque external_body struct"})
            i += 1
            continue
        if s.startswith("//@fn ") or s.startswith("//@region "):
            is_region = s.startswith("//@region ")
            body = s[len("//@region "):] if is_region else s[len("//@fn "):]
            parts = [p.strip() for p in body.split(" :: ")]
            rel = parts[0]
            segs = []
            pathparts = []
            for p in parts[1:]:
                m = re.match(r'seg (after )?"(.*)" \.\. (before )?"(.*)"$', p)
                if m:
                    segs.append((("after:" if m.group(1) else "") + m.group(2), ("before:" if m.group(3) else "") + m.group(4))); continue
                m = re.match(r'seg (after )?"(.*)" \.\. end$', p)
                if m:
                    segs.append((("after:" if m.group(1) else "") + m.group(2), "end:")); continue
                m = re.match(r'seg "(.*)" \.\. brace$', p)
                if m:
                    segs.append((m.group(1), None)); continue
                pathparts.append(p)
            path = " :: ".join(pathparts)
            j = i + 1
            block = []
            while j < len(tl) and tl[j].strip() != "//@end":
                block.append(tl[j]); j += 1
            if j >= len(tl):
                raise GenError("unterminated block for %s" % path)
            if is_region:
                raw = slice_region(repo, rel, path, segs)
                cur = normalise(raw, is_fn=False)
            else:
                raw = slice_fn(repo, rel, path)
                cur = normalise(raw, is_fn=True)
            cur_lines = cur.split("\n")
            code_base, gaps = split_block(block)
            what = "%s::%s" % (rel, path)
            merged, changed = reattach(code_base, gaps, cur_lines, what)
            ren = infer_renames(changed, "\n".join(code_base))
            if ren:
                ghost_ids = {t.text for ml in merged if _is_ghost(ml) for t in rl.lex(ml) if t.kind == "ident"}
                clash = {b: b + "__g" for b in ren.values() if b in ghost_ids}
                if clash:   # a ghost-only local already uses the new name: move it out of the way first
                    merged = [rename_idents(ml, clash) if _is_ghost(ml) else ml for ml in merged]
                merged = [rename_idents(ml, ren) if _is_ghost(ml) else ml for ml in merged]
                report.setdefault("ghost_renames", []).append({"item": path, "renamed_locals": ren})
            sublog = []
            final = apply_directives(merged, sublog)
            substs = [tuple(x["subst"]) for x in sublog]
            if erase(final, substs) != rl.code_texts(raw):
                raise GenError("erasure mismatch on %s" % what)
            indent = re.match(r"\s*", l).group(0)
            if vacuity:
                # vacuity probe: `assert(false)` as first statement of the body must FAIL
                for k, fl in enumerate(final):
                    st = fl.strip()
                    if st in ("{", GH + " {", WR + " {"):
                        final = final[:k + 1] + [GH + " assert(false); // vacuity probe"] + final[k + 1:]
                        break
                else:
                    raise GenError("vacuity probe: no body brace in %s" % what)
            for fl in final:
                fs = fl
                # turn marker comments into nothing for readability
                st = fs.lstrip()
                if st.startswith(GH):
                    fs = fs[:len(fs) - len(st)] + st[len(GH):].lstrip(" ")
                elif st.startswith(WR):
                    fs = fs[:len(fs) - len(st)] + st[len(WR):].lstrip(" ")
                out.append(indent + fs)
            # module-level constants the function refers to are sliced from the same file and emitted once
            for cname in sorted({t.text for t in rl.code_tokens(raw) if t.kind == "ident" and re.fullmatch(r"[A-Z][A-Z0-9_]{2,}", t.text)}):
                if cname in consts_done:
                    continue
                cm = re.search(r"^(?:pub(?:\([a-z]+\))?\s+)?const\s+%s\s*:[^=;]+=[^;]+;" % re.escape(cname), read_repo(repo, rel), re.M)
                if cm:
                    # inside verus! a const's reference type needs its (implied) 'static lifetime spelled out
                    consts_done[cname] = re.sub(r"(:\s*)&(?!')", r"\1&'static ", cm.group(0), count=1)
                    report["items"].append({"item": "const " + cname, "file": rel, "sha256_16": sha(cm.group(0)), "mode": "verbatim module-level constant referenced by " + path})
            report["items"].append({
                "item": ("region of " if is_region else "fn ") + path, "file": rel, "sha256_16": sha(raw),
                "mode": "statement region wrapped as fn (wrapper lines from overlay)" if is_region else "verbatim fn",
                "ghost_lines": sum(len(g) for g in gaps), "code_lines": len(cur_lines),
                "differs_from_contract_time_text": bool(changed)})
            for old, new in changed:
                report["changed_vs_contract_time"].append({"item": path, "old": [x.strip() for x in old][:6], "new": [x.strip() for x in new][:6]})
            report["substitutions"].extend(sublog)
            i = j + 1
            continue
        out.append(l)
        i += 1
    if consts_done:
        for k, l in enumerate(out):
            if l.strip().startswith("verus!") and l.strip().endswith("{"):
                out = out[:k + 1] + ["// module-level constants referenced by the extracted functions (verbatim from /repo)"] + list(consts_done.values()) + out[k + 1:]
                break
    text = "\n".join(out) + "\n"
    report["trusted_scan"] = trusted_scan(text)
    return text, report


TRUST_PATTERNS = [r"external_body", r"assume_specification", r"\bassume\s*\(", r"\badmit\s*\(", r"\buninterp\b",
                  r"external_fn_specification", r"#\[verifier::external\b", r"exec_allows_no_decreases_clause",
                  r"#\[verifier::truncate\]"]


def trusted_scan(text):
    hits = []
    for ln, l in enumerate(text.split("\n"), 1):
        for p in TRUST_PATTERNS:
            if re.search(p, l) and not l.strip().startswith("//"):
                hits.append("%d: %s" % (ln, l.strip()[:140]))
                break
    return hits


def main():
    import argparse, json
    ap = argparse.ArgumentParser()
    ap.add_argument("spec"); ap.add_argument("--repo", default="/repo"); ap.add_argument("-o", required=True)
    a = ap.parse_args()
    try:
        text, rep = generate(a.spec, a.repo)
    except GenError as e:
        print("GENERATION-ERROR: %s" % e)
        sys.exit(2)
    with open(a.o, "w") as f:
        f.write(text)
    print(json.dumps(rep, indent=1))


if __name__ == "__main__":
    main()
