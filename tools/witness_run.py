"""Bounded witness search on the real code (not a verifier; see witness/common.rs).  Runs `cargo test` with the
repository toolchain in the scratch copy, with a test module injected (insert-only) as a child of the unit's
source file."""
import os
import re
import subprocess
import time

import kani_run

# Verus unit -> (source file that receives the test module, bound description)
WITNESS = {
    "consolidate": ("src/storage/persist/consolidate.rs", "all logs of length <= 6 over 3 tuples, diffs in {+1,-1,0}"),
    "bloom": ("src/bloom_filter.rs", "10 sizes x 9 hash counts x 160 keys via with_params, 4 filters via new"),
    "insert_dedup": ("src/storage_engine/mod.rs", "two overlapping batches, 10 x 4 shapes up to 18000 tuples with in-batch repetitions"),
    "auth": ("src/auth.rs", "every MetaCommand variant and one statement of every other kind x every role"),
    "lsh": ("src/vector_ops.rs", "4 buckets x hyperplane counts {0..8,61,62,63,64,100} x probe counts 0..200"),
    "pushdown": ("src/optimizer/mod.rs", "left width <= 3, right arity <= 4, every key subset of size <= 2, every tested column and column pair"),
    "matches": ("src/schema/mod.rs", "every schema type x 14 representative values (vector lengths 0..3)"),
    "codegen_guard": ("src/code_generator/mod.rs", "every plan tree of depth <= 2 over the 10 constructible node kinds (Union of 2)"),
    # always-run bounded stand-ins for functions that are outside both verifiers' reach
    "standin_hash_index": ("src/hash_index.rs", "every history of <= 5 insert/remove/rebuild operations over 4 tuples, every probe key; growth to 450 keys for 5 creation sizes"),
    "standin_validator": ("src/schema/validator.rs", "batches of 1..1000 tuples x 3 columns, <= 1 bad tuple (8 kinds) at first/middle/last position"),
    "standin_pagination": ("src/protocol/handler.rs", "pagination: len <= 6, limit/offset in {None,0..8}; sort: <= 4 rows from 11 mixed-kind values, both directions"),
    "standin_workers": ("src/code_generator/mod.rs", "20 programs covering every operator class x workers {2,3,4,8} vs 1 worker, 42-edge graph"),
    "standin_value_laws": ("src/value/mod.rs", "all pairs and triples of ~85 representative values (strings <= 41 chars, vectors <= 33 elements) and ~100 tuples of length <= 2"),
    "standin_rewrites": ("src/optimizer/mod.rs", "26 programs x 7 optimizer configurations x 4 engine instances, 4 small relations"),
    "standin_value_roundtrip": ("src/storage_engine/mod.rs", "14 relations (one per value kind, Nulls in typed columns, vectors, 4 mixed-kind) x {WAL replay, save + restart}"),
    "standin_pagination_e2e": ("src/protocol/handler.rs", "Handler::query_program on 10 rows: sort {none,asc,desc} x limit {1,3,4,10,15} x offset {absent,0,2,3,9,12}"),
    "standin_vector_laws": ("src/vector_ops.rs", "8 dimensions (0..33) x 60 pseudo-random vector pairs incl. zero/negative/huge/tiny elements; 36 LSH bucket/cache-state sequences; history independence over 14 (vector, table, bits) configurations incl. table indices congruent mod 2^32"),
    "standin_schema_e2e": ("src/protocol/handler.rs", "Handler::query_program: 12 declared column types (vector(N) up to 1536) x non-conforming literals, mixed bulk insert / single bad row / conforming insert"),
    "standin_delete": ("src/storage_engine/mod.rs", "relations of 0..300 tuples x 7 delete batches mixing present/absent/repeated tuples"),
    "standin_histories_clean": ("src/storage_engine/mod.rs", "every clean history of length <= 3 (thorough 5) over {insert,delete} x 2 tuples + save/compact/restart steps, with and without a final save; one bulk history (4200 inserts, 1404 deletes)"),
    "standin_stratification": ("src/protocol/handler.rs", "validate_rules_stratification on all 262144 rule sets over 3 predicates (each ordered pair: no / positive / negated / both dependencies); Handler::query_program on 12 rule sets x every split of their clauses between persistent and session rules"),
    "standin_parse_all_first": ("src/protocol/handler.rs", "Handler::query_program: programs of 1..=3 statements from a pool of 9 (all of length <= 2, every 6th of length 3) x a malformed statement (those of 19 candidates that parse_statement rejects) at every position; 1/3 of the well-formed programs compared with statement-by-statement submission"),
    "standin_incremental": ("src/storage_engine/mod.rs", "two StorageEngines (incremental maintenance enabled before step 0/1/2 vs never): every history of length <= 2 and every 3rd of length 3 (thorough: all of length <= 3, every 20th of length 4) over 11 steps (base inserts/deletes, rule registration incl. second clause, derived-on-derived (with and without a base atom) and recursive rules, clause removal, rule drop) that registers a rule, from an empty or a pre-populated base relation, answers for 4 derived relations compared after every step"),
    "standin_hnsw_history": ("src/hnsw_index.rs", "HnswIndex (Euclidean, dim 2, <= 7 entries): every history of length <= 4 (thorough 5) over 8 steps (insert/update 3 ids, delete 2 ids, delete an absent id, rebuild, save+load) from 2 starting contents; model comparison after every step"),
    "standin_authz_programs": ("src/protocol/handler.rs", "Handler::execute_program as 3 non-admin users without write permission on kg1: 7 state-changing statements x 14 program shapes (alone, around queries, comments, blank lines, session rule, two writes, leading whitespace, continuation line, after a query with trailing comment, after read-only meta commands); 7 x 3 programs by an editor of another graph that `.kg use` the protected graph; control: a KG editor can write"),
    "standin_internal_kg": ("src/protocol/handler.rs", "Handler::execute_program as 3 non-admin users: 7 programs with the internal knowledge graph as target, 12 programs naming it in .kg use/create/drop alone and inside multi-line programs (incl. after read-only meta commands and trailing comments)"),
    "standin_kg_isolation": ("src/storage_engine/mod.rs", "one StorageEngine, graphs `a` and `a_b`, relations `b_c` and `c`: [create both] + every history of length <= 3 (thorough: + every 5th of length 4) over 11 steps (create/drop each graph, 4 inserts, rule registration, save, restart) + [restart], each with graph names (a, ab) and (a, a_b); model comparison after every step; SEQUENTIAL histories only"),
    "standin_histories_dirty": ("src/storage_engine/mod.rs", "every history of length <= 3 over 2 tuples with a re-insert or an absent delete, save, restart"),
}


def inject_all(units, root):
    """append the test modules of `units` (grouped per source file so that the final text is stable)"""
    per_file = {}
    for u in units:
        per_file.setdefault(WITNESS[u][0], []).append(u)
    for rel, us in per_file.items():
        p = os.path.join(kani_run.WORK, rel)
        with open(p, "rb") as f:
            data = f.read()
        for u in sorted(us):
            add = ("\n#[cfg(test)]\n#[path = \"%s/witness/%s.rs\"]\nmod verif_witness_%s;\n" % (root, u, u)).encode()
            if add not in data:
                data += add
        kani_run.write_stable(p, data)


def run(unit, repo, root, synced=False, group=None, tier=None):
    """-> {"status": found|none|error, "detail": str, "bound": str, "cmd": str, "wall_s": float}"""
    if unit not in WITNESS or not os.path.isfile(os.path.join(root, "witness", unit + ".rs")):
        return {"status": "error", "detail": "no witness module for unit %s" % unit}
    rel, bound = WITNESS[unit]
    t0 = time.time()
    if not synced and not kani_run._SYNCED:
        kani_run.sync(repo)
    inject_all(group or [unit], root)
    env = dict(os.environ, CARGO_NET_OFFLINE="true", VERIF_TIER=tier or os.environ.get("VERIF_TIER", "quick"))
    cmd = ["cargo", "test", "--offline", "--lib", "--target-dir", kani_run.TEST_TARGET,
           "verif_witness_%s::verif_witness" % unit, "--", "--nocapture", "--test-threads", "1"]
    kani_run.pre_build("test")
    try:
        pr = subprocess.run(cmd, cwd=kani_run.WORK, env=env, capture_output=True, text=True, timeout=3600)
    except subprocess.TimeoutExpired:
        return {"status": "error", "detail": "witness search timed out", "bound": bound, "cmd": " ".join(cmd)}
    out = pr.stdout + "\n" + pr.stderr
    with open("/var/tmp/ilverif/witness_%s.log" % unit, "w") as f:
        f.write(out)
    if (tier or os.environ.get("VERIF_TIER")) == "thorough":
        bound += " [thorough tier: enlarged, see witness/%s.rs]" % unit
    res = {"bound": bound, "cmd": " ".join(cmd), "wall_s": round(time.time() - t0, 1)}
    found = re.findall(r"VERIF-WITNESS//FOUND ([^\n]*)", out)
    cm = re.search(r"VERIF-WITNESS//NONE cases=(\d+)", out) or re.search(r"failing cases of (\d+)\)", out)
    if cm:
        res["cases"] = int(cm.group(1))
    if found:
        res.update(status="found", detail=found[0], found_all=found[:200])
        return res
    m = re.search(r"VERIF-WITNESS//NONE ([^\n]*)", out)
    if m and "test result: ok" in out:
        res.update(status="none", detail=m.group(1))
        return res
    if "panicked at" in out and "test result: FAILED" in out:
        pm = re.search(r"panicked at ([^\n]*\n[^\n]*)", out)
        res.update(status="found", detail="the real code panicked during the search: " + (pm.group(1) if pm else ""))
        return res
    if re.search(r"running 0 tests", out) and not re.search(r"running [1-9]\d* tests?", out):
        res.update(status="error", detail="the test binary does not contain the witness module (0 tests ran)")
        return res
    errs = [l for l in out.split("\n") if l.startswith("error")][:5]
    res.update(status="error", detail="witness module did not build/run: " + " | ".join(errs))
    return res
