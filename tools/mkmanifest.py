#!/usr/bin/env python3
"""Regenerate MANIFEST.json from tools/props.py + tools/na.py (keeps the two in step)."""
import json, os, sys
ROOT = os.path.dirname(os.path.dirname(os.path.abspath(__file__)))
sys.path.insert(0, os.path.join(ROOT, "tools"))
import props, na
ids = ["C%02d" % i for i in range(1, 37)]
checks = []
for pid in ids:
    if pid not in props.PROPS:
        continue
    c = props.PROPS[pid]
    checks.append({
        "property_id": pid,
        "quick_cmd": "./check %s --tier quick" % pid,
        "thorough_cmd": "./check %s --tier thorough" % pid,
        "evidence_file": "/verif/evidence/%s.json" % pid,
        "replay_cmd_template": "./check %s --replay {path}" % pid,
        "engine": c.get("engine", "contracts"),
        "level_claimed": {"category": c["level"], "text": c["level_text"], "design_ref": c.get("design_ref", "DESIGN.md §4.1 " + pid)},
        "level_note": c["level_note"],
        "technique": c["technique"],
    })
nal = []
for pid in ids:
    if pid in props.PROPS:
        continue
    nal.append({"property_id": pid, "reason": na.NOT_APPLICABLE.get(pid, "not yet built in this session (see DESIGN.md §4)")})
m = {
    "version": 1,
    "setup_cmd": "./setup.sh",
    "hooks": {
        "guard": "kani",
        "enable": "none in /repo: contracts and harness modules are inserted into a scratch copy of the working tree at check time (lines under #[cfg(any(kani, test))]); Verus units are generated from /repo's text on every run",
        "baseline_off_cmd": "cd /repo && cargo nextest run --workspace --no-fail-fast --tool-config-file pb:/w/lib/nextest.toml --profile pb --test-threads 8 --offline",
        "source_commits": [],
        "add_only": True,
    },
    "engines": [
        {"name": "contracts", "path": "/verif/check", "serves_properties": [c["property_id"] for c in checks if c["engine"] == "contracts"],
         "kind_free_text": "contract-based deductive verification: Verus (unbounded, functions sliced from /repo each run with an erasure check) and Kani/CBMC (harness modules injected insert-only into a scratch copy of /repo)"},
        {"name": "bounded-standin", "path": "/verif/check", "serves_properties": [c["property_id"] for c in checks if c["engine"] == "bounded-standin"],
         "kind_free_text": "BOUNDED stand-in only (the brief's fallback for functions neither verifier can reach): the property's contract evaluated on an enumerated, stated set of inputs of the real code; nothing proved, level 'exploration'"},
    ],
    "checks": checks,
    "not_applicable": nal,
    "notes": "exit 0 = all obligations discharged; exit 1 + VIOLATION line = a property-carrying obligation failed; exit 2 = undecided (tooling), never an alarm. See DESIGN.md.",
}
json.dump(m, open(os.path.join(ROOT, "MANIFEST.json"), "w"), indent=1)
print("checks:", [c["property_id"] for c in checks], "n/a:", len(nal))
