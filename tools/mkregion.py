#!/usr/bin/env python3
"""Authoring aid (not used by checks): annotated Verus fn + region segments -> //@region block."""
import sys, re, difflib, os, json
sys.path.insert(0, os.path.dirname(os.path.abspath(__file__)))
import vgen, mkspec

def main():
    ann, name, rel, path = sys.argv[1:5]
    segs = json.loads(sys.argv[5])   # [["from","to"|null],...]
    text = open(ann).read()
    a_fn = vgen.dedent(mkspec.find_annotated_fn(text, name))
    raw = vgen.slice_region('/repo', rel, path, [(a, b) for a, b in segs])
    cur = vgen.normalise(raw, is_fn=False).split('\n')
    pre = []
    for l in a_fn.split('\n'):
        m = re.match(r"(\s*(?:'\w+: )?for .* in )(\w+): (.*)$", l)
        if m:
            pre.append(("dir", "//!iter %s" % m.group(2))); l = m.group(1) + m.group(3)
        pre.append(("l", l))
    a = [x[1].strip() if x[0] == "l" else "\0" for x in pre]
    b = [l.strip() for l in cur]
    sm = difflib.SequenceMatcher(None, a, b, autojunk=False)
    out = []
    for tag, i1, i2, j1, j2 in sm.get_opcodes():
        if tag == 'equal':
            out.extend(cur[j1:j2])
        else:
            for k in range(i1, i2):
                kind, l = pre[k]
                if kind == 'dir':
                    out.append('/*@*/ ' + l)
                elif l.strip():
                    ind = re.match(r"\s*", l).group(0); out.append(ind + '/*@*/ ' + l.strip())
            for k in range(j1, j2):
                out.append(cur[k] + ('   //REVIEW' if cur[k].strip() else ''))
    # header lines up to the body brace and the final brace are wrapper lines
    inhdr = True
    for i, l in enumerate(out):
        if inhdr and l.strip().startswith('/*@*/'):
            out[i] = l.replace('/*@*/', '/*@w*/', 1)
            if l.strip() == '/*@*/ {':
                inhdr = False
        elif inhdr:
            break
    for i in range(len(out) - 1, -1, -1):
        if out[i].strip() == '/*@*/ }':
            out[i] = out[i].replace('/*@*/', '/*@w*/'); break
    segtxt = " :: ".join('seg "%s" .. %s' % (a, ('"%s"' % b) if b else 'brace') for a, b in segs)
    print("//@region %s :: %s :: %s" % (rel, path, segtxt))
    print("\n".join(out))
    print("//@end")
main()
