#!/bin/bash
# Re-apply every seeded change (and every benign refactoring) to /repo's working tree, run the quick check of its
# property, and undo. Seeds must give exit 1 + VIOLATION; benign diffs must give no VIOLATION (exit 0; exit 2 noted).
# Usage: tools/recheck_seeds.sh [id ...]     (log: /var/tmp/ilverif/recheck_seeds.log)
cd /verif || exit 2
if [ -n "$(git -C /repo status --porcelain --untracked-files=no)" ]; then echo "/repo working tree not clean"; exit 2; fi
ids="$@"; [ -z "$ids" ] && ids=$(ls seeded | grep -v benign)
bad=0
for id in $ids; do
  prop=$(python3 -c "import json;print(json.load(open('seeded/$id/meta.json'))['property'])")
  if ! git -C /repo apply --check /verif/seeded/$id/patch.diff 2>/dev/null; then echo "SEED $id: patch no longer applies (code it changed was since repaired?)"; continue; fi
  git -C /repo apply /verif/seeded/$id/patch.diff
  out=$(./check $prop 2>&1); rc=$?
  git -C /repo checkout -- .
  v=$(echo "$out" | grep -m1 '^VIOLATION' | cut -c1-220)
  if [ $rc -eq 1 ] && [ -n "$v" ]; then echo "SEED $id ($prop): caught  rc=1  $v"; else echo "SEED $id ($prop): MISSED rc=$rc"; bad=1; fi
done
if [ $# -eq 0 ]; then
for d in seeded/benign/*.diff; do
  case $(basename $d | cut -c1-2) in A1) prop=C28;; A2) prop=C36;; A3) prop=C11;; A6) prop=C32;; A4) prop=C26;; A5) prop=C03;; B1|B2) prop=C05;; B3) prop=C31;; B4) prop=C35;; B5|B6) prop=C33;; *) continue;; esac
  if ! git -C /repo apply --check /verif/$d 2>/dev/null; then echo "BENIGN $d: no longer applies"; continue; fi
  git -C /repo apply /verif/$d
  out=$(./check $prop 2>&1); rc=$?
  git -C /repo checkout -- .
  if echo "$out" | grep -q '^VIOLATION' || [ $rc -eq 1 ]; then echo "BENIGN $d ($prop): FALSE ALARM rc=$rc"; bad=1; else echo "BENIGN $d ($prop): quiet rc=$rc"; fi
done
fi
git -C /verif checkout -- evidence  # evidence files are only ever committed from runs on the unchanged tree
exit $bad
