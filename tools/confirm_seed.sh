#!/bin/sh
# Confirm a seeded change in ONE shared scratch worktree (/tmp/wt_confirm, shared target dir):
#   1. patch applied: crate compiles and the pinned suite passes (demo test parked)
#   2. patch applied: demo fails     3. patch reverted: demo passes
# usage: confirm_seed.sh <id>     (reads /verif/seeded/<id>/{patch.diff,seeded_demo.rs}; writes confirm.txt there)
id=$1; S=/verif/seeded/$id; W=/tmp/wt_confirm
[ -d $W ] || git -C /repo worktree add -f $W HEAD -q || exit 1
cd $W && git checkout -q -- . && git clean -fdq -e target && git checkout -q --detach $(git -C /repo rev-parse HEAD)
export CARGO_TARGET_DIR=$W/target
git apply $S/patch.diff || { echo "patch does not apply" > $S/confirm.txt; exit 1; }
{
echo "confirmed in scratch worktree $W at $(git -C /repo rev-parse --short HEAD) on $(date -u +%FT%TZ)"
echo "== 1. pinned suite with the patch applied (baseline command)"
cargo nextest run --workspace --no-fail-fast --tool-config-file pb:/w/lib/nextest.toml --profile pb --test-threads 8 --offline 2>&1 | grep -E "Summary|FAIL |error(\[|:)" | head -20
if [ -f $S/demo_append_to ]; then
  T=$(cat $S/demo_append_to); cat $S/seeded_demo.rs >> $T
  echo "== 2. demonstration (module appended to $T) with the patch applied (must fail)"
  cargo test --offline --lib seeded_demo 2>&1 | grep -E "^test result|^test .*FAILED" | head -8
  git checkout -q -- .; cat $S/seeded_demo.rs >> $T
  echo "== 3. demonstration without the patch (must pass)"
  cargo test --offline --lib seeded_demo 2>&1 | grep -E "^test result|^test .*FAILED" | head -8
  git checkout -q -- $T
else
cp $S/seeded_demo.rs tests/seeded_demo.rs
echo "== 2. demonstration with the patch applied (must fail)"
cargo test --offline --test seeded_demo 2>&1 | grep -E "^test result|^test .*FAILED" | head -8
git apply -R $S/patch.diff
echo "== 3. demonstration without the patch (must pass)"
cargo test --offline --test seeded_demo 2>&1 | grep -E "^test result|^test .*FAILED" | head -8
rm -f tests/seeded_demo.rs
fi
} > $S/confirm.txt 2>&1
cat $S/confirm.txt
