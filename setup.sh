#!/bin/sh
# Builds the Kani dependency cache (git-ignored) from a scratch copy of /repo; offline.
set -e
cd "$(dirname "$0")"
exec python3 tools/setup_cache.py
