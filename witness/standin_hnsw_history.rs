// C25 — BOUNDED stand-in (HnswIndex keeps its state behind parking_lot::RwLock: Kani compiler ICE; Verus has no
// specification for that lock and rejects the iterator code; the graph is hnsw_rs (unsafe, rayon); save/load are
// files + serde).
//
// The real HnswIndex (Euclidean, dimension 2, ef 200) is driven through the `Index` trait with every history of
// length <= 4 (thorough: 5) over 8 steps — insert id 0/1/2 (an insert of a present id is an update: each insert uses a
// fresh vector), delete id 0/1, delete an id never inserted, rebuild from the live entries, save + load into a new
// index — from two starting contents (empty; four entries 10..13, so that one delete stays below the 30 %
// auto-compaction threshold).  Model: live = id -> latest vector.  After EVERY step:
//   (1) len() - tombstone_count() == |live|                       (entries that are not tombstoned are the live ones)
//   (2) search(q, k = 12) returns exactly the live identifiers, for q = every live vector and an outside point,
//       each with its distance to the LATEST vector of that identifier (the nearest neighbour of a live vector is
//       its own identifier at distance 0)
//   (3) dimension() is the entries' dimension while one is live and 0 when the index is empty (an emptied index
//       then accepts entries of another dimension: the next insert switches between 2 and 3); tombstone_count() <= number of deletes of present ids since the
//       last rebuild
//   (4) save + load preserves len, tombstone_count, dimension, the configuration and every search answer.
// With <= 7 points and ef = 200 the HNSW search is exhaustive in practice (the repository's own tests rely on it) but
// not always (random level assignment; observed once in ~20 000 runs): a failing history is re-run twice and reported
// only if it fails all three times.
use super::*;
include!("/verif/witness/common.rs");

#[derive(Clone, Copy, Debug, PartialEq)]
enum HOp { Ins(usize), Del(usize), DelAbsent, Rebuild, SaveLoad }
const HOPS: [HOp; 8] = [HOp::Ins(0), HOp::Ins(1), HOp::Ins(2), HOp::Del(0), HOp::Del(1), HOp::DelAbsent, HOp::Rebuild, HOp::SaveLoad];

fn vh_config() -> HnswConfig { HnswConfig { m: 16, ef_construction: 200, ef_search: 200, metric: DistanceMetric::Euclidean } }
/// a fresh, distinct vector for the n-th insert of the run (no two at distance < 0.5)
fn vh_vec(n: usize, dim: usize) -> Vec<f32> {
    let mut v = vec![1.0 + 3.0 * (n % 7) as f32, 2.0 + 5.0 * (n / 7) as f32];
    if dim == 3 { v.push(0.5); }
    v
}
fn vh_outside(dim: usize) -> Vec<f32> { if dim == 3 { vec![40.0, 40.0, 40.0] } else { vec![40.0, 40.0] } }
fn vh_dist(a: &[f32], b: &[f32]) -> f64 { a.iter().zip(b).map(|(x, y)| ((x - y) as f64).powi(2)).sum::<f64>().sqrt() }

fn vh_observe(ix: &HnswIndex, probes: &[Vec<f32>]) -> String {
    let mut s = format!("len={} tomb={} dim={} cfg=({},{},{},{:?})", ix.len(), ix.tombstone_count(), ix.dimension(),
        ix.config().m, ix.config().ef_construction, ix.config().ef_search, ix.config().metric);
    for q in probes {
        let mut r: Vec<(TupleId, i64)> = ix.search(q, 12, Some(200)).into_iter().map(|(id, d)| (id, (d * 1000.0).round() as i64)).collect();
        r.sort();
        s.push_str(&format!(" {:?}->{:?}", q, r));
    }
    s
}

fn vh_check(ix: &HnswIndex, live: &std::collections::BTreeMap<usize, Vec<f32>>, dels_since_rebuild: usize, ctx: &str) -> Option<String> {
    let (len, tomb) = (ix.len(), ix.tombstone_count());
    if len.checked_sub(tomb) != Some(live.len()) {
        return Some(format!("{ctx}: len() = {len}, tombstone_count() = {tomb}, but {} identifiers are live {:?}", live.len(), live.keys().collect::<Vec<_>>()));
    }
    if tomb > dels_since_rebuild {
        return Some(format!("{ctx}: tombstone_count() = {tomb} but only {dels_since_rebuild} present identifiers were deleted since the last rebuild"));
    }
    let dim = live.values().next().map(|v| v.len()).unwrap_or(0);
    if !live.is_empty() && ix.dimension() != dim {
        return Some(format!("{ctx}: dimension() = {} with live {dim}-dimensional entries", ix.dimension()));
    }
    if len == 0 && ix.dimension() != 0 {
        return Some(format!("{ctx}: the index is empty (len() = 0) but dimension() = {}", ix.dimension()));
    }
    let mut probes: Vec<Vec<f32>> = live.values().cloned().collect();
    probes.push(vh_outside(if dim == 0 { 2 } else { dim }));
    for q in &probes {
        let res = ix.search(q, 12, Some(200));
        let mut ids: Vec<usize> = res.iter().map(|(id, _)| *id).collect();
        ids.sort();
        let want: Vec<usize> = live.keys().copied().collect();
        if ids != want {
            return Some(format!("{ctx}: search({q:?}, k=12) returns identifiers {ids:?}, the live identifiers are {want:?}"));
        }
        for (id, d) in &res {
            let expect = vh_dist(q, &live[id]);
            if (d - expect).abs() > 1e-3 {
                return Some(format!("{ctx}: search({q:?}) reports identifier {id} at distance {d}, its latest vector {:?} is at {expect}", live[id]));
            }
        }
    }
    None
}

fn vh_run(start4: bool, h: &[HOp]) -> Option<String> {
    let mut ix = HnswIndex::new(vh_config());
    let mut live: std::collections::BTreeMap<usize, Vec<f32>> = Default::default();
    let mut n = 0usize;
    let mut dels = 0usize;
    let mut dim = 2usize;   // dimension of the entries; an index that has become empty accepts the other dimension
    if start4 {
        for id in 10usize..14 { let v = vh_vec(n, dim); n += 1; ix.insert(id, &v).expect("insert"); live.insert(id, v); }
    }
    for (i, op) in h.iter().enumerate() {
        let ctx = format!("start {} history {:?} after step {i} {:?}", if start4 { "[10,11,12,13]" } else { "[]" }, h, op);
        match *op {
            HOp::Ins(id) => {
                if live.is_empty() && ix.len() == 0 && n > 0 { dim = 5 - dim; }
                let v = vh_vec(n, dim); n += 1; if let Err(e) = ix.insert(id, &v) { return Some(format!("{ctx}: insert failed: {e}")); } live.insert(id, v);
            }
            HOp::Del(id) => { if live.remove(&id).is_some() { dels += 1; } ix.delete(id); }
            HOp::DelAbsent => { ix.delete(99); }
            HOp::Rebuild => {
                let entries: Vec<(TupleId, Vec<f32>)> = live.iter().map(|(k, v)| (*k, v.clone())).collect();
                if let Err(e) = ix.rebuild(&entries) { return Some(format!("{ctx}: rebuild failed: {e}")); }
                dels = 0;
            }
            HOp::SaveLoad => {
                let dir = tempfile::TempDir::new().unwrap();
                let mut probes: Vec<Vec<f32>> = live.values().cloned().collect();
                probes.push(vh_outside(live.values().next().map(|v| v.len()).unwrap_or(2)));
                let before = vh_observe(&ix, &probes);
                if let Err(e) = ix.save(dir.path()) { return Some(format!("{ctx}: save failed: {e}")); }
                let loaded = match HnswIndex::load(dir.path()) { Ok(l) => l, Err(e) => return Some(format!("{ctx}: load failed: {e}")) };
                let after = vh_observe(&loaded, &probes);
                if before != after { return Some(format!("{ctx}: the saved index observes [{before}], the loaded one [{after}]")); }
                ix = loaded;
            }
        }
        // the auto-compaction inside delete() is a rebuild: the bound on tombstones restarts when it has happened
        if ix.tombstone_count() == 0 { dels = 0; }
        if let Some(f) = vh_check(&ix, &live, dels, &ctx) { return Some(f); }
    }
    None
}

#[test]
fn verif_witness() {
    let max_len = if vw_thorough() { 5 } else { 4 };
    let mut hs: Vec<Vec<HOp>> = Vec::new();
    fn rec(cur: &mut Vec<HOp>, max: usize, out: &mut Vec<Vec<HOp>>) {
        if !cur.is_empty() { out.push(cur.clone()); }
        if cur.len() == max { return; }
        for op in HOPS { cur.push(op); rec(cur, max, out); cur.pop(); }
    }
    rec(&mut Vec::new(), max_len, &mut hs);
    let mut cases = 0usize;
    let mut seen: std::collections::BTreeSet<String> = Default::default();
    for h in &hs {
        for start4 in [false, true] {
            cases += 1;
            // the graph is built with random level assignment and the search is approximate: a live entry is
            // very occasionally missed even at this size.  A defect in the state tracking is deterministic, a missed
            // neighbour is not: a history is reported only if it fails three times out of three.
            let mut failure = vh_run(start4, h);
            if failure.is_some() { for _ in 0..2 { if vh_run(start4, h).is_none() { failure = None; break; } } }
            if let Some(f) = failure {
                // one report per distinct (last step kind, failure kind): the same defect shows in thousands of histories
                let key = format!("{:?}|{}", h.last(), f.split(": ").nth(1).unwrap_or("").split(|c: char| c.is_ascii_digit()).next().unwrap_or(""));
                if seen.insert(key) { vw_report(f); }
            }
        }
        if seen.len() >= 20 { break; }
    }
    vw_finish(cases);
}
