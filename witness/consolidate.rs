// C11 witness search: every log of length <= 6 over 3 one-column tuples with diffs in {+1,-1} (and one 0),
// through the real consolidate_to_current + to_tuples, against net multiplicity.
use super::*;
use crate::value::Value;
include!("/verif/witness/common.rs");

fn up(k: i64, d: i64) -> Update { Update { data: Tuple::new(vec![Value::Int64(k)]), time: 0, diff: d } }

#[test]
fn verif_witness() {
    let choices: [(i64, i64); 7] = [(1, 1), (1, -1), (2, 1), (2, -1), (3, 1), (3, -1), (2, 0)];
    let mut cases = 0usize;
    for len in 1..=(if vw_thorough() { 7usize } else { 6 }) {
        let total = choices.len().pow(len as u32);
        for code in 0..total {
            let mut c = code; let mut log = Vec::new();
            for _ in 0..len { log.push(choices[c % choices.len()]); c /= choices.len(); }
            let mut v: Vec<Update> = log.iter().map(|(k, d)| up(*k, *d)).collect();
            consolidate_to_current(&mut v);
            let live = to_tuples(&v);
            cases += 1;
            for k in 1..=3i64 {
                let net: i64 = log.iter().filter(|(kk, _)| *kk == k).map(|(_, d)| *d).sum();
                let entries: Vec<&Update> = v.iter().filter(|u| u.data.get(0) == Some(&Value::Int64(k))).collect();
                let n_live = live.iter().filter(|t| t.get(0) == Some(&Value::Int64(k))).count();
                let ok = if net == 0 { entries.is_empty() } else { entries.len() == 1 && entries[0].diff == net };
                let ok_live = n_live == if net > 0 { 1 } else { 0 };
                if !ok || !ok_live {
                    vw_found(format!("log (tuple,diff)={:?}: tuple {} has net multiplicity {} but consolidate_to_current left {} entr(ies) {:?} and to_tuples returns it {} time(s)",
                        log, k, net, entries.len(), entries.iter().map(|u| u.diff).collect::<Vec<_>>(), n_live));
                }
            }
        }
    }
    vw_none(cases);
}
