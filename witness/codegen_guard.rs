// C03 witness search (partition guard) on the real CodeGenerator::contains_join: every plan tree of depth <= 3.
use super::*;
include!("/verif/witness/common.rs");

fn scan() -> IRNode { IRNode::Scan { relation: "r".to_string(), schema: vec!["a".to_string()] } }
fn unary(k: usize, i: IRNode) -> IRNode {
    match k {
        0 => IRNode::Map { input: Box::new(i), projection: vec![0], output_schema: vec!["a".to_string()] },
        1 => IRNode::Filter { input: Box::new(i), predicate: Predicate::ColumnGtConst(0, 0) },
        2 => IRNode::Distinct { input: Box::new(i) },
        3 => IRNode::Compute { input: Box::new(i), expressions: Vec::new() },
        4 => IRNode::FlatMap { input: Box::new(i), projection: vec![0], filter_predicate: None, output_schema: vec!["a".to_string()] },
        _ => IRNode::Aggregate { input: Box::new(i), group_by: vec![0], aggregations: Vec::new(), output_schema: vec!["a".to_string()] },
    }
}
fn binary(k: usize, a: IRNode, b: IRNode) -> IRNode {
    let os = vec!["a".to_string()];
    match k {
        0 => IRNode::Join { left: Box::new(a), right: Box::new(b), left_keys: vec![0], right_keys: vec![0], output_schema: os },
        1 => IRNode::Antijoin { left: Box::new(a), right: Box::new(b), left_keys: vec![0], right_keys: vec![0], output_schema: os },
        2 => IRNode::JoinFlatMap { left: Box::new(a), right: Box::new(b), left_keys: vec![0], right_keys: vec![0], projection: vec![0], filter_predicate: None, output_schema: os },
        _ => IRNode::Union { inputs: vec![a, b] },
    }
}
fn trees(depth: usize) -> Vec<IRNode> {
    if depth == 0 { return vec![scan()]; }
    let sub = trees(depth - 1);
    let mut out = vec![scan()];
    for k in 0..6 { for t in &sub { out.push(unary(k, t.clone())); } }
    for k in 0..4 { for (i, a) in sub.iter().enumerate() { for b in sub.iter().skip(i % 3).step_by(3) { out.push(binary(k, a.clone(), b.clone())); } } }
    out
}
fn distributes(ir: &IRNode) -> bool {
    match ir {
        IRNode::Scan { .. } | IRNode::HnswScan { .. } => true,
        IRNode::Map { input, .. } | IRNode::Filter { input, .. } | IRNode::Distinct { input } | IRNode::Compute { input, .. } | IRNode::FlatMap { input, .. } => distributes(input),
        IRNode::Union { inputs } => inputs.iter().all(distributes),
        IRNode::Join { .. } | IRNode::Antijoin { .. } | IRNode::JoinFlatMap { .. } | IRNode::Aggregate { .. } => false,
    }
}
#[test]
fn verif_witness() {
    let mut cases = 0usize;
    for t in trees(2) {
        cases += 1;
        if !CodeGenerator::contains_join(&t) && !distributes(&t) {
            vw_found(format!("plan {} would be partitioned across workers (contains_join == false) although it contains an operator that does not distribute over input partitions", t.pretty_print(0).replace('\n', " / ")));
        }
    }
    vw_none(cases);
}
