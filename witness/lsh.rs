// C26 witness search (probe-sequence clause) on the real lsh_probes / hamming_distance.
use super::*;
include!("/verif/witness/common.rs");

#[test]
fn verif_witness() {
    let mut cases = 0usize;
    for &bucket in &[0i64, -1, 0x1234_5678_9abc, i64::MIN, i64::MAX] {
        for &h in &[0usize, 1, 2, 3, 4, 5, 6, 7, 8, 61, 62, 63, 64, 100] {
            for n in (0..60usize).chain([100, 200, 2000]) {
                if h > 8 && n > 200 { continue; }
                let p = lsh_probes(bucket, h, n);
                cases += 1;
                if p.len() > n { vw_found(format!("lsh_probes({bucket},{h},{n}) returned {} probes", p.len())); }
                if n > 0 && p.first() != Some(&bucket) { vw_found(format!("lsh_probes({bucket},{h},{n}) does not start at the bucket: {:?}", p.first())); }
                let mut seen = std::collections::HashSet::new();
                let mut last = 0i64;
                for (i, x) in p.iter().enumerate() {
                    if !seen.insert(*x) { vw_found(format!("lsh_probes({bucket},{h},{n}): probe #{i} = {x} repeats an earlier probe")); }
                    let d = hamming_distance(*x, bucket);
                    if d < last { vw_found(format!("lsh_probes({bucket},{h},{n}): probe #{i} has Hamming distance {d} after a probe at distance {last}")); }
                    last = d;
                }
            }
        }
    }
    vw_none(cases);
}
