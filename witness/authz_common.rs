// C27 / C29 — BOUNDED stand-in (authorization is inlined in the async Handler::execute_program and depends on string
// parsing of the whole program: outside both verifiers; the role lattice itself is proved under C28).
//
// A real Handler with bootstrapped authentication, a knowledge graph "kg1" with facts, a rule and a schema, and three
// non-admin users: `vv` (global viewer, KG viewer on kg1), `ev` (global editor, KG viewer on kg1), `en` (global editor,
// no role on kg1).  Each submits, through Handler::execute_program with knowledge graph kg1, programs built from
//   7 state-changing statements (insert, bulk insert, delete, conditional delete, persistent rule, rule/relation drop,
//   schema declaration)
// wrapped in 14 program shapes (alone; after a query line; before a query line; after a comment line; after a blank
// line and a comment; after a session rule; two writes; with leading whitespace; continuation-line form; after a query
// with a trailing comment; after `.status`, `.rel list`, `.kg use kg1`; after a continuation-line rule with a comment).
// plus `e2` (global editor, KG editor on kg2, no role on kg1): 7 writes x 3 programs that `.kg use kg1` from target kg2.
// C27: none of these users may write kg1 — after every request the knowledge graph's base tuples, persistent rules
//      and schemas must be what they were (whether or not the request reports an error).
//      Control: a user with the KG editor role (`ee`) must be able to run the same single statements.
// C29: programs naming or targeting the internal knowledge graph (as target KG, through `.kg use/create/drop`, alone or
//      inside multi-line programs) submitted by the non-admin users must be refused and must not change the internal
//      knowledge graph's `users` / `kg_acls` relations, nor return their rows.

fn va_state(handler: &Handler, kg: &str) -> String {
    let storage = handler.storage.read();
    let snap = match storage.get_snapshot_for(kg) { Ok(s) => s, Err(e) => return format!("no snapshot: {e}") };
    let mut rels: Vec<String> = snap.input_tuples.iter().filter(|(_, v)| !v.is_empty()).map(|(k, v)| {
        let mut rows: Vec<String> = v.iter().map(|t| format!("{:?}", t.values())).collect();
        rows.sort(); rows.dedup();
        format!("{k}={}", rows.join(","))
    }).collect();
    rels.sort();
    let mut rules: Vec<String> = snap.rules.iter().map(|r| format!("{r}")).collect();
    rules.sort();
    let mut schemas = storage.list_schemas_in(kg).unwrap_or_default();
    schemas.sort();
    format!("relations[{}] rules[{}] schemas[{}]", rels.join(" ; "), rules.join(" ; "), schemas.join(","))
}

fn va_id(name: &str, role: crate::auth::Role) -> crate::auth::AuthIdentity {
    crate::auth::AuthIdentity { username: name.to_string(), role }
}

async fn va_run(check_c27: bool, check_c29: bool) {
    use crate::auth::Role;
    let tmp = tempfile::tempdir().unwrap();
    let mut config = Config::default();
    config.storage.data_dir = tmp.path().to_path_buf();
    config.storage.auto_create_knowledge_graphs = true;
    let handler = Handler::from_config(config).expect("handler");
    handler.bootstrap_auth();
    for s in ["+r1[(1,), (2,), (3,)]", "+r2[(1, 10), (2, 20)]", "+d1(X) <- r1(X), X > 1", "+s1(a: int, b: string)"] {
        handler.query_program(Some("kg1".to_string()), s.to_string()).await.expect("initial content");
    }
    handler.handle_user_create("vv", "pw-vv-12345", "viewer").expect("create vv");
    handler.handle_user_create("ev", "pw-ev-12345", "editor").expect("create ev");
    handler.handle_user_create("en", "pw-en-12345", "editor").expect("create en");
    handler.handle_user_create("ee", "pw-ee-12345", "editor").expect("create ee");
    handler.handle_kg_acl_grant("kg1", "vv", "viewer").expect("grant vv");
    handler.handle_kg_acl_grant("kg1", "ev", "viewer").expect("grant ev");
    handler.handle_kg_acl_grant("kg1", "ee", "editor").expect("grant ee");
    // `e2`: global editor, KG editor on a second graph kg2, no role on kg1
    handler.query_program(Some("kg2".to_string()), "+k2[(1,)]".to_string()).await.expect("kg2 content");
    handler.handle_user_create("e2", "pw-e2-12345", "editor").expect("create e2");
    handler.handle_kg_acl_grant("kg2", "e2", "editor").expect("grant e2");
    let users = [va_id("vv", Role::Viewer), va_id("ev", Role::Editor), va_id("en", Role::Editor)];
    let writes: [&str; 7] = [
        "+r1(7)", "+r3[(5, 6), (7, 8)]", "-r1(2)", "-r1(X) <- r1(X), X > 2", "+d2(X, Y) <- r2(X, Y), r1(X)", "-d1", "+s2(a: int, b: string)",
    ];
    let shapes: Vec<Box<dyn Fn(&str, &str) -> String>> = vec![
        Box::new(|w, _| w.to_string()),
        Box::new(|w, _| format!("?r1(X)\n{w}")),
        Box::new(|w, _| format!("{w}\n?r1(X)")),
        Box::new(|w, _| format!("// housekeeping\n{w}")),
        Box::new(|w, _| format!("\n// housekeeping\n{w}\n")),
        Box::new(|w, _| format!("tmp(X) <- r1(X)\n{w}\n?tmp(X)")),
        Box::new(|w, w2| format!("{w}\n{w2}")),
        Box::new(|w, _| format!("   {w}")),
        Box::new(|w, _| format!("?r1(X),\n   X > 1\n{w}")),
        // first lines after which the statement parser ignores the rest of the text (trailing comment, meta commands)
        Box::new(|w, _| format!("?r1(X) // c\n{w}")),
        Box::new(|w, _| format!(".status\n{w}")),
        Box::new(|w, _| format!(".rel list\n{w}")),
        Box::new(|w, _| format!(".kg use kg1\n{w}")),
        Box::new(|w, _| format!("tmp(X) <- r1(X), // c\n   X > 1\n{w}")),
    ];
    let mut cases = 0usize;
    let initial = va_state(&handler, "kg1");
    // ---------------------------------------------------------------- C27
    if check_c27 {
    'outer: for (wi, w) in writes.iter().enumerate() {
        for (si, shape) in shapes.iter().enumerate() {
            let prog = shape(w, writes[(wi + 1) % writes.len()]);
            for u in &users {
                cases += 1;
                let r = handler.execute_program(None, Some("kg1".to_string()), prog.clone(), Some(u)).await;
                let after = va_state(&handler, "kg1");
                if after != initial {
                    vw_report(format!("C27: user `{}` (global {:?}, {} on kg1) submitted program {:?} (shape {si}) and the knowledge graph changed ({}): before {initial} after {after}",
                        u.username, u.role, if u.username == "en" { "no role" } else { "KG viewer" }, prog,
                        if r.is_ok() { "request accepted" } else { "request reported an error" }));
                    break 'outer;   // the shared knowledge graph is no longer in its initial state
                }
            }
        }
    }
    // graph switches: `e2` may write kg2 but has no role on kg1; a `.kg use kg1` inside its program must not let it write kg1
    if va_state(&handler, "kg1") == initial {
        let e2 = va_id("e2", Role::Editor);
        'sw: for w in writes.iter() {
            for prog in [format!(".kg use kg1\n{w}"), format!("+k2(5)\n.kg use kg1\n{w}"), format!("// switch\n.kg use kg2\n.kg use kg1\n{w}\n.kg use kg2")] {
                cases += 1;
                let r = handler.execute_program(None, Some("kg2".to_string()), prog.clone(), Some(&e2)).await;
                let after = va_state(&handler, "kg1");
                if after != initial {
                    vw_report(format!("C27: user `e2` (global Editor, KG editor on kg2, no role on kg1) submitted program {:?} with target kg2 and kg1 changed ({}): before {initial} after {after}",
                        prog, if r.is_ok() { "request accepted" } else { "request reported an error" }));
                    break 'sw;
                }
            }
        }
    }
    // control: the KG editor may write (otherwise the checks above are vacuous)
    {
        let ee = va_id("ee", Role::Editor);
        let r = handler.execute_program(None, Some("kg1".to_string()), "+ctl(1)".to_string(), Some(&ee)).await;
        cases += 1;
        if r.is_err() || !va_state(&handler, "kg1").contains("ctl=") {
            vw_report(format!("C27 control: the KG editor `ee` could not insert into kg1: {:?}", r.as_ref().err()));
        }
    }
    }
    // ---------------------------------------------------------------- C29
    if !check_c29 { return vw_finish(cases); }
    let internal = crate::auth::INTERNAL_KG;
    let internal_before = va_state(&handler, internal);
    let progs_internal_target: Vec<String> = vec![
        "?users(A, B, C)".to_string(), "?users(A, B, C, D)".to_string(), "?kg_acls(A, B, C)".to_string(),
        "+users(\"mallory\", \"x\", \"admin\")".to_string(), "-kg_acls(\"kg1\", \"vv\", \"viewer\")".to_string(),
        "// c\n?users(A, B, C)".to_string(), "?r1(X)\n+kg_acls(\"kg1\", \"vv\", \"owner\")".to_string(),
    ];
    let progs_naming_internal: Vec<String> = vec![
        format!(".kg use {internal}"), format!(".kg drop {internal}"), format!(".kg create {internal}"),
        format!("?r1(X)\n.kg use {internal}\n?users(A, B, C)"), format!("// c\n.kg use {internal}\n+users(\"mallory\", \"x\", \"admin\")"),
        format!(".kg use {internal}\n+kg_acls(\"kg1\", \"vv\", \"owner\")"), format!("\n.kg drop {internal}\n"),
        format!(".status\n.kg use {internal}\n?users(A, B, C)"), format!(".status\n.kg use {internal}\n?users(A, B, C, D)"),
        format!("?r1(X) // c\n.kg use {internal}\n+users(\"mallory\", \"x\", \"admin\")"), format!(".kg list\n.kg use {internal}\n?kg_acls(A, B, C)"),
        format!(".rel list\n.kg drop {internal}"),
    ];
    for u in &users {
        for p in &progs_internal_target {
            cases += 1;
            let r = handler.execute_program(None, Some(internal.to_string()), p.clone(), Some(u)).await;
            if let Ok(ref q) = r {
                vw_report(format!("C29: user `{}` (global {:?}) ran program {:?} with target knowledge graph `{internal}` and it was accepted ({} rows)", u.username, u.role, p, q.rows.len()));
            }
        }
        for p in &progs_naming_internal {
            cases += 1;
            let r = handler.execute_program(None, Some("kg1".to_string()), p.clone(), Some(u)).await;
            if let Ok(ref q) = r {
                let leaked = q.rows.iter().any(|row| format!("{row:?}").contains("pw-") || format!("{row:?}").contains("admin"));
                if leaked || q.switched_kg.as_deref() == Some(internal) {
                    vw_report(format!("C29: user `{}` (global {:?}) ran program {:?} on kg1: accepted, {}", u.username, u.role, p,
                        if leaked { "rows of the internal knowledge graph returned" } else { "session switched to the internal knowledge graph" }));
                }
            }
        }
        let internal_after = va_state(&handler, internal);
        if internal_after != internal_before {
            vw_report(format!("C29: after the programs of user `{}` the internal knowledge graph changed: before {internal_before} after {internal_after}", u.username));
            break;
        }
    }
    vw_finish(cases);
}
