// C32 witness search (insert clause): batches with in-batch and cross-batch duplicates, at small and at bulk
// sizes, through the public StorageEngine API; report and stored relation against a set model.
use super::*;
use std::collections::HashSet;
include!("/verif/witness/common.rs");

fn stored(storage: &StorageEngine, rel: &str) -> Vec<Tuple> {
    let snap = storage.get_snapshot_for("default").unwrap();
    snap.input_tuples.get(rel).cloned().unwrap_or_default()
}

#[test]
fn verif_witness() {
    let mut cases = 0usize;
    // batch shapes: (distinct tuples, repetitions of each)
    let shapes: [(usize, usize); 10] = [(1, 1), (1, 2), (2, 2), (3, 1), (5, 3), (130, 2), (300, 1), (400, 2), (1500, 3), (9000, 2)];
    for &(a_n, a_rep) in &shapes {
        for &(b_n, b_rep) in &[(1usize, 2usize), (3, 2), (200, 2), (700, 2)] {
            if a_n > 5000 && b_n != 3 { continue; }
            let temp = tempfile::TempDir::new().unwrap();
            let mut config = crate::Config::default();
            config.storage.data_dir = temp.path().to_path_buf();
            let storage = StorageEngine::new(config).unwrap();
            let mut model: HashSet<(i32, i32)> = HashSet::new();
            let mk = |n: usize, rep: usize, off: i32| -> Vec<(i32, i32)> {
                let mut v = Vec::new();
                for r in 0..rep { for i in 0..n { let _ = r; v.push((off + i as i32, (off + i as i32) * 2)); } }
                v
            };
            // batch A, then batch B overlapping A by half
            for (step, batch) in [mk(a_n, a_rep, 0), mk(b_n, b_rep, (a_n / 2) as i32)].into_iter().enumerate() {
                let len = batch.len();
                let mut exp_new = 0usize;
                for t in &batch { if model.insert(*t) { exp_new += 1; } }
                let (new, dup) = storage.insert("r", batch).unwrap();
                cases += 1;
                if (new, dup) != (exp_new, len - exp_new) {
                    vw_found(format!("step {step}: insert of {len} tuples ({} distinct x {} repetitions) into a relation of {} tuples reported (new,dup)=({new},{dup}), expected ({exp_new},{})",
                        if step == 0 { a_n } else { b_n }, if step == 0 { a_rep } else { b_rep }, model.len() - exp_new, len - exp_new));
                }
                let rows = stored(&storage, "r");
                let distinct: HashSet<&Tuple> = rows.iter().collect();
                if rows.len() != distinct.len() || rows.len() != model.len() {
                    vw_found(format!("step {step}: after inserting a batch of {len} tuples the stored relation has {} rows, {} distinct, model has {}", rows.len(), distinct.len(), model.len()));
                }
            }
        }
    }
    vw_none(cases);
}
