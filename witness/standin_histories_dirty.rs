// C11, whole-engine clause — BOUNDED stand-in: every history of length <= 3 over 2 tuples INCLUDING re-inserts of
// present tuples and deletes of absent ones (the property names them explicitly), save, restart.
use super::*;
include!("/verif/witness/common.rs");
include!("/verif/witness/c11_histories_common.rs");

#[test]
fn verif_witness() {
    let mut cases = 0usize;
    for h in histories(if vw_thorough() { 4 } else { 3 }) {
        if is_clean(&h) { continue; }
        let (before, after) = run_history(&h);
        cases += 1;
        if before != after { vw_found(format!("history {:?}; save; restart: served {:?} before the restart and {:?} after it", h, before, after)); }
    }
    vw_none(cases);
}
