// C36 witness search: filters of many sizes / hash counts (degenerate ones included), interleaved inserts of
// integers and strings; after every insert every key inserted so far must be reported possibly present.
use super::*;
include!("/verif/witness/common.rs");

#[test]
fn verif_witness() {
    let mut cases = 0usize;
    for &bits in &[0usize, 1, 63, 64, 65, 127, 128, 129, 1000, 4096] {
        for &k in &[0usize, 1, 2, 3, 7, 16, 32, 33, 100] {
            let mut f = BloomFilter::with_params(bits, k);
            let mut ints: Vec<i64> = Vec::new();
            let mut strs: Vec<String> = Vec::new();
            for i in 0..120i64 {
                let x = i * 7919 - 300;
                f.insert(&x); ints.push(x);
                if i % 3 == 0 { let s = format!("key-{i}"); f.insert(&s); strs.push(s); }
                cases += 1;
                for y in &ints { if !f.might_contain(y) { vw_found(format!("with_params({bits},{k}): after inserting {} keys, inserted key {} is reported absent", ints.len() + strs.len(), y)); } }
                for s in &strs { if !f.might_contain(s) { vw_found(format!("with_params({bits},{k}): after inserting {} keys, inserted key {:?} is reported absent", ints.len() + strs.len(), s)); } }
            }
            f.clear();
            f.insert(&1i64);
            if !f.might_contain(&1i64) { vw_found(format!("with_params({bits},{k}): key inserted after clear() is reported absent")); }
        }
    }
    for &(n, p) in &[(1usize, 0.5f64), (10, 0.01), (1000, 0.001), (100000, 0.01)] {
        let mut f = BloomFilter::new(n, p);
        for i in 0..200i64 { f.insert(&i); for j in 0..=i { if !f.might_contain(&j) { vw_found(format!("new({n},{p}): inserted key {j} reported absent after {} inserts", i + 1)); } } cases += 1; }
    }
    vw_none(cases);
}
