// C11, whole-engine clause — BOUNDED stand-in (the write path is locks + file system: outside both verifiers):
// every CLEAN history (no re-insert of a present tuple, no delete of an absent one) of length <= 5 over 2 tuples,
// save, restart: the relation served after the restart equals the relation served before it.
use super::*;
include!("/verif/witness/common.rs");
include!("/verif/witness/c11_histories_common.rs");

#[test]
fn verif_witness() {
    let mut cases = 0usize;
    for h in histories(if vw_thorough() { 7 } else { 5 }) {
        if !is_clean(&h) { continue; }
        let (before, after) = run_history(&h);
        cases += 1;
        if before != after { vw_found(format!("history {:?}; save; restart: served {:?} before the restart and {:?} after it", h, before, after)); }
    }
    vw_none(cases);
}
