// C11, whole-engine clause — BOUNDED stand-in (the write path is locks + file system: outside both verifiers):
// every CLEAN history (no re-insert of a present tuple, no delete of an absent one) of length <= 3 (thorough: 5) over 2 tuples with
// save / compact / restart steps inside, ending with and without a final save, plus one bulk history; restart: the relation served after the restart equals the relation served before it.
use super::*;
include!("/verif/witness/common.rs");
include!("/verif/witness/c11_histories_common.rs");

#[test]
fn verif_witness() {
    let mut cases = 0usize;
    for h in histories(if vw_thorough() { 5 } else { 3 }) {
        if !is_clean(&h) { continue; }
        // a history consisting only of Save/Compact/Restart is pointless; so is one ending in Restart
        if !h.iter().any(|o| matches!(o, Op::InsA | Op::InsB)) || h.last() == Some(&Op::Restart) { continue; }
        for final_save in [true, false] {
            let (before, after) = run_history_with(&h, final_save);
            cases += 1;
            if before != after { vw_found(format!("history {:?}; {}restart: served {:?} before the restart and {:?} after it", h, if final_save { "save; " } else { "" }, before, after)); }
        }
    }
    // bulk: enough updates for several flushes/batch files, interleaved with saves and a compaction
    {
        let temp = tempfile::TempDir::new().unwrap();
        let q = "result(X,Y) <- edge(X,Y)";
        let before = {
            let mut s = StorageEngine::new(cfg(temp.path().to_path_buf())).unwrap();
            s.create_knowledge_graph("kg").unwrap(); s.use_knowledge_graph("kg").unwrap();
            for round in 0..6i32 {
                s.insert("edge", (0..700).map(|i| (round * 1000 + i, i)).collect()).unwrap();
                s.delete("edge", (0..700).step_by(3).map(|i| (round * 1000 + i, i)).collect()).unwrap();
                if round % 2 == 0 { s.save_knowledge_graph("kg").unwrap(); }
                if round == 3 { s.compact_all().unwrap(); }
            }
            let mut live = s.execute_query(q).unwrap_or_default(); live.sort_unstable(); live
        };
        let after = { let mut s = StorageEngine::new(cfg(temp.path().to_path_buf())).unwrap(); s.use_knowledge_graph("kg").unwrap();
                      let mut r = s.execute_query(q).unwrap_or_default(); r.sort_unstable(); r };
        cases += 1;
        if before != after { vw_found(format!("bulk history (6 rounds of 700 inserts + 234 deletes, saves, one compaction); restart: {} tuples served before, {} after", before.len(), after.len())); }
    }
    vw_none(cases);
}
