// C05, whole-pipeline clause — BOUNDED stand-in (the rewrite passes other than the push-down site are outside
// both verifiers' reach): 26 programs (two- and three-way joins with filters on either side, two join keys,
// self-join, cyclic join, constants, column comparisons, computed columns, negation, aggregates over joins,
// unions) evaluated under 7 optimizer configurations (default, everything off, each of the five switches off
// alone), 4 engine instances each (plan construction iterates hash sets); every configuration must return the
// same relation.
use super::*;
use crate::value::{Tuple, Value};
use crate::{IQLEngine, OptimizationConfig};
include!("/verif/witness/common.rs");

fn t(v: &[i64]) -> Tuple { Tuple::new(v.iter().map(|x| Value::Int64(*x)).collect()) }
fn configs() -> Vec<(&'static str, OptimizationConfig)> {
    let on = OptimizationConfig::default();
    let off = OptimizationConfig { enable_join_planning: false, enable_sip_rewriting: false, enable_subplan_sharing: false,
                                   enable_boolean_specialization: false, enable_magic_sets: false };
    let mut v = vec![("default", on.clone()), ("all-off", off)];
    let mut c = on.clone(); c.enable_join_planning = false; v.push(("join-planning-off", c));
    let mut c = on.clone(); c.enable_sip_rewriting = false; v.push(("sip-off", c));
    let mut c = on.clone(); c.enable_subplan_sharing = false; v.push(("subplan-sharing-off", c));
    let mut c = on.clone(); c.enable_boolean_specialization = false; v.push(("boolean-specialization-off", c));
    let mut c = on.clone(); c.enable_magic_sets = false; v.push(("magic-sets-off", c));
    v
}
fn run(cfg: &OptimizationConfig, program: &str) -> Result<Vec<Tuple>, String> {
    let mut e = IQLEngine::with_config(cfg.clone());
    e.add_tuples("a", vec![t(&[1, 10]), t(&[2, 3]), t(&[3, 3]), t(&[4, 7]), t(&[7, 1])]);
    e.add_tuples("b", vec![t(&[10, 1]), t(&[3, 9]), t(&[3, 4]), t(&[7, 7]), t(&[1, 6])]);
    e.add_tuples("c", vec![t(&[9, 2]), t(&[4, 8]), t(&[1, 1]), t(&[7, 4]), t(&[6, 7])]);
    e.add_tuples("b3", vec![t(&[10, 1, 10]), t(&[3, 2, 0]), t(&[3, 3, 6]), t(&[7, 4, 9]), t(&[1, 7, 2]), t(&[3, 1, 8])]);
    let mut out = e.execute_tuples(program)?;
    out.sort(); out.dedup();
    Ok(out)
}
#[test]
fn verif_witness() {
    let programs = [
        "q(X,Z) <- a(X,Y), b(Y,Z), Z > 5",
        "q(X,Z) <- a(X,Y), b(Y,Z), X > 1",
        "q(X,Z) <- a(X,Y), b(Y,Z), Y > 2",
        "q(X,Y,Z) <- a(X,Y), b(Y,Z), Z < 9, X < 4",
        "q(X,W) <- a(X,Y), b(Y,Z), c(Z,W), W > 3",
        "q(X,W) <- a(X,Y), b(Y,Z), c(Z,W), Z > 4",
        "q(X,Y,W) <- a(X,Y), b3(Y,X,W), W > 5",
        "q(X,Y,W) <- a(X,Y), b3(Y,X,W)",
        "q(X,W) <- a(X,Y), b3(Y,K,W), W > 1, K < 4",
        "q(Z) <- a(X,Y), b(Y,Z)",
        "q(X) <- a(X,Y), b(Y,Z), c(Z,X)",
        "q(X,Z) <- a(X,Y), a(Y,Z)",
        "q(X) <- a(X,3)",
        "q(X,Z) <- a(X,Y), b(Y,Z), X = 2",
        "q(X,Z) <- a(X,Y), b(Y,Z), X < Z",
        "q(X,Z) <- a(X,Y), b(Y,Z), Z != 9",
        "q(X,S) <- a(X,Y), b(Y,Z), S = X + Z",
        "q(X,S) <- a(X,Y), b(Y,Z), S = X + Z, S > 8",
        "q(X,Y) <- a(X,Y), !b(Y,9)",
        "q(X,Z) <- a(X,Y), b(Y,Z), !c(Z,8)",
        "c1(X, count<Z>) <- a(X,Y), b(Y,Z)",
        "s1(X, sum<Z>) <- a(X,Y), b(Y,Z), Z > 4",
        "q(X,Z) <- a(X,Y), b(Y,Z)\nq(X,Z) <- a(X,Z), Z > 5",
        "q(X,Y) <- a(X,Y), Y > 2\nq(X,Y) <- b(X,Y), X > 2",
        "q(Y) <- a(X,Y), b(Y,Z), c(Z,W), W > 1, X > 1",
        "q(X,Y,Z,W) <- a(X,Y), b(Y,Z), c(Z,W)",
    ];
    let cfgs = configs();
    let mut cases = 0usize; let mut skipped = 0usize;
    for p in programs {
        let base = match run(&cfgs[1].1, p) { Ok(b) => b, Err(_) => { skipped += 1; continue; } };
        for (name, cfg) in &cfgs {
            for rep in 0..4 {
                cases += 1;
                match run(cfg, p) {
                    Ok(got) => if got != base {
                        if rep > 0 { continue; }
                        vw_report(format!("program `{}`: {} rows with every optimization switch off, {} rows with configuration `{}` (run {}): e.g. {:?} vs {:?}",
                            p.replace('\n', " ; "), base.len(), got.len(), name, rep, base.iter().find(|x| !got.contains(x)), got.iter().find(|x| !base.contains(x))));
                    },
                    Err(e) => vw_report(format!("program `{}` runs with every switch off but fails under `{}`: {}", p.replace('\n', " ; "), name, e)),
                }
            }
        }
    }
    if skipped > 8 { vw_found(format!("{skipped} of {} stand-in programs no longer run", programs.len())); }
    println!("skipped programs: {skipped}");
    vw_finish(cases);
}
