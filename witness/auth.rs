// C28 witness search: every MetaCommand variant (Option payloads in both shapes) and one statement of every other
// kind, for every role, on the real authorize_kg_operation / authorize_statement; the property's laws directly.
use super::*;
use crate::statement::{parse_statement, MetaCommand, Statement};
include!("/verif/witness/common.rs");

fn s(x: &str) -> String { x.to_string() }
fn metas() -> Vec<(String, MetaCommand)> {
    let mut v: Vec<(String, MetaCommand)> = vec![
        (s("MetaCommand::KgShow"), MetaCommand::KgShow),
        (s("MetaCommand::KgList"), MetaCommand::KgList),
        (s("MetaCommand::KgCreate(s(\"k\"))"), MetaCommand::KgCreate(s("k"))),
        (s("MetaCommand::KgUse(s(\"k\"))"), MetaCommand::KgUse(s("k"))),
        (s("MetaCommand::KgDrop(s(\"k\"))"), MetaCommand::KgDrop(s("k"))),
        (s("MetaCommand::RelList"), MetaCommand::RelList),
        (s("MetaCommand::RelDescribe(s(\"r\"))"), MetaCommand::RelDescribe(s("r"))),
        (s("MetaCommand::RelDrop(s(\"r\"))"), MetaCommand::RelDrop(s("r"))),
        (s("MetaCommand::RuleList"), MetaCommand::RuleList),
        (s("MetaCommand::RuleQuery(s(\"r\"))"), MetaCommand::RuleQuery(s("r"))),
        (s("MetaCommand::RuleShowDef(s(\"r\"))"), MetaCommand::RuleShowDef(s("r"))),
        (s("MetaCommand::RuleDrop(s(\"r\"))"), MetaCommand::RuleDrop(s("r"))),
        (s("MetaCommand::RuleDropPrefix(s(\"p\"))"), MetaCommand::RuleDropPrefix(s("p"))),
        (s("MetaCommand::RuleEdit { name: s(\"r\"), index: 0, rule_text: s(\"r(X) <- e(X).\") }"), MetaCommand::RuleEdit { name: s("r"), index: 0, rule_text: s("r(X) <- e(X).") }),
        (s("MetaCommand::RuleClear(s(\"r\"))"), MetaCommand::RuleClear(s("r"))),
        (s("MetaCommand::RuleRemove { name: s(\"r\"), index: 0 }"), MetaCommand::RuleRemove { name: s("r"), index: 0 }),
        (s("MetaCommand::SessionList"), MetaCommand::SessionList),
        (s("MetaCommand::SessionClear"), MetaCommand::SessionClear),
        (s("MetaCommand::SessionDrop(0)"), MetaCommand::SessionDrop(0)),
        (s("MetaCommand::SessionDropName(s(\"r\"))"), MetaCommand::SessionDropName(s("r"))),
        (s("MetaCommand::IndexList"), MetaCommand::IndexList),
        (s("MetaCommand::IndexDrop(s(\"i\"))"), MetaCommand::IndexDrop(s("i"))),
        (s("MetaCommand::IndexStats(s(\"i\"))"), MetaCommand::IndexStats(s("i"))),
        (s("MetaCommand::IndexRebuild(s(\"i\"))"), MetaCommand::IndexRebuild(s("i"))),
        (s("MetaCommand::ClearPrefix(s(\"p\"))"), MetaCommand::ClearPrefix(s("p"))),
        (s("MetaCommand::Compact"), MetaCommand::Compact),
        (s("MetaCommand::Status"), MetaCommand::Status),
        (s("MetaCommand::Debug(s(\"q\"))"), MetaCommand::Debug(s("q"))),
        (s("MetaCommand::Why(s(\"q\"))"), MetaCommand::Why(s("q"))),
        (s("MetaCommand::WhyFull(s(\"q\"))"), MetaCommand::WhyFull(s("q"))),
        (s("MetaCommand::WhyNot(s(\"q\"))"), MetaCommand::WhyNot(s("q"))),
        (s("MetaCommand::AgentMessage(s(\"m\"))"), MetaCommand::AgentMessage(s("m"))),
        (s("MetaCommand::AgentStart(s(\"m\"))"), MetaCommand::AgentStart(s("m"))),
        (s("MetaCommand::AgentSetup(s(\"m\"))"), MetaCommand::AgentSetup(s("m"))),
        (s("MetaCommand::AgentExamples"), MetaCommand::AgentExamples),
        (s("MetaCommand::Help"), MetaCommand::Help),
        (s("MetaCommand::Quit"), MetaCommand::Quit),
        (s("MetaCommand::Load { path: s(\"f.iql\"), mode: Default::default() }"), MetaCommand::Load { path: s("f.iql"), mode: Default::default() }),
        (s("MetaCommand::UserList"), MetaCommand::UserList),
        (s("MetaCommand::UserCreate { username: s(\"u\"), password: s(\"p\"), role: s(\"viewer\") }"), MetaCommand::UserCreate { username: s("u"), password: s("p"), role: s("viewer") }),
        (s("MetaCommand::UserDrop(s(\"u\"))"), MetaCommand::UserDrop(s("u"))),
        (s("MetaCommand::UserPassword { username: s(\"u\"), password: s(\"p\") }"), MetaCommand::UserPassword { username: s("u"), password: s("p") }),
        (s("MetaCommand::UserRole { username: s(\"u\"), role: s(\"editor\") }"), MetaCommand::UserRole { username: s("u"), role: s("editor") }),
        (s("MetaCommand::ApiKeyCreate(s(\"k\"))"), MetaCommand::ApiKeyCreate(s("k"))),
        (s("MetaCommand::ApiKeyList"), MetaCommand::ApiKeyList),
        (s("MetaCommand::ApiKeyRevoke(s(\"k\"))"), MetaCommand::ApiKeyRevoke(s("k"))),
        (s("MetaCommand::KgAclList(None)"), MetaCommand::KgAclList(None)),
        (s("MetaCommand::KgAclList(Some(\"k\"))"), MetaCommand::KgAclList(Some(s("k")))),
        (s("MetaCommand::KgAclGrant { kg_name: s(\"k\"), username: s(\"u\"), role: s(\"viewer\") }"), MetaCommand::KgAclGrant { kg_name: s("k"), username: s("u"), role: s("viewer") }),
        (s("MetaCommand::KgAclRevoke { kg_name: s(\"k\"), username: s(\"u\") }"), MetaCommand::KgAclRevoke { kg_name: s("k"), username: s("u") }),
    ];
    if let Ok(Statement::Meta(m)) = parse_statement(".index create i on r(c)") { v.push((s(".index create i on r(c)"), m)); }
    v
}
fn statements() -> Vec<(String, Statement)> {
    let mut v: Vec<(String, Statement)> = metas().into_iter().map(|(l, m)| (l, Statement::Meta(m))).collect();
    for text in ["+edge(1, 2).", "-edge(1, 2).", "-e(X, Y), +f(X, Y) <- e(X, Y).", "type Age: int.", "r(X) <- e(X, Y).",
                 "e(1, 2).", "?e(X, Y)", "+e(a: int, b: int).", "+p(X) <- e(X, Y)."] {
        if let Ok(st) = parse_statement(text) { v.push((text.to_string(), st)); }
    }
    v.push((s("DeleteRelationOrRule(\"r\")"), Statement::DeleteRelationOrRule(s("r"))));
    v
}
fn admin_only(st: &Statement) -> bool {
    matches!(st, Statement::Meta(MetaCommand::Compact | MetaCommand::UserList | MetaCommand::UserCreate { .. } | MetaCommand::UserDrop(_)
        | MetaCommand::UserPassword { .. } | MetaCommand::UserRole { .. } | MetaCommand::ApiKeyCreate(_) | MetaCommand::ApiKeyList | MetaCommand::ApiKeyRevoke(_)))
}
fn mutates(st: &Statement) -> bool {
    match st {
        Statement::Insert(_) | Statement::Delete(_) | Statement::Update(_) | Statement::PersistentRule(_) | Statement::SchemaDecl(_)
        | Statement::TypeDecl(_) | Statement::DeleteRelationOrRule(_) => true,
        Statement::Meta(c) => matches!(c, MetaCommand::KgCreate(_) | MetaCommand::KgDrop(_) | MetaCommand::RelDrop(_) | MetaCommand::RuleDrop(_)
            | MetaCommand::RuleDropPrefix(_) | MetaCommand::RuleEdit { .. } | MetaCommand::RuleClear(_) | MetaCommand::RuleRemove { .. }
            | MetaCommand::IndexCreate(_) | MetaCommand::IndexDrop(_) | MetaCommand::IndexRebuild(_) | MetaCommand::ClearPrefix(_)
            | MetaCommand::Load { .. } | MetaCommand::KgAclGrant { .. } | MetaCommand::KgAclRevoke { .. } | MetaCommand::Compact
            | MetaCommand::UserCreate { .. } | MetaCommand::UserDrop(_) | MetaCommand::UserPassword { .. } | MetaCommand::UserRole { .. }
            | MetaCommand::ApiKeyCreate(_) | MetaCommand::ApiKeyRevoke(_)),
        _ => false,
    }
}
fn describe(label: &str, _st: &Statement) -> String { format!("statement `{label}`") }

#[test]
fn verif_witness() {
    let mut cases = 0usize;
    for (label, st) in statements() {
        let v = authorize_kg_operation(&KgRole::Viewer, &st).is_ok();
        let e = authorize_kg_operation(&KgRole::Editor, &st).is_ok();
        let o = authorize_kg_operation(&KgRole::Owner, &st).is_ok();
        let gv = authorize_statement(&Role::Viewer, &st).is_ok();
        let ge = authorize_statement(&Role::Editor, &st).is_ok();
        let ga = authorize_statement(&Role::Admin, &st).is_ok();
        cases += 6;
        let d = describe(&label, &st);
        if v && !e { vw_found(format!("{d}: permitted to KG viewer but denied to KG editor")); }
        if e && !o { vw_found(format!("{d}: permitted to KG editor but denied to KG owner")); }
        if v && mutates(&st) { vw_found(format!("{d}: changes persistent state but is permitted to a KG viewer")); }
        if admin_only(&st) && (v || e) { vw_found(format!("{d}: admin-only operation permitted to KG viewer={v} / editor={e}")); }
        if gv && !ge { vw_found(format!("{d}: permitted to global viewer but denied to global editor")); }
        if ge && !ga { vw_found(format!("{d}: permitted to global editor but denied to admin")); }
        if admin_only(&st) && (gv || ge) { vw_found(format!("{d}: admin-only operation permitted to global viewer={gv} / editor={ge}")); }
    }
    vw_none(cases);
}
