// C33, declaration-to-storage path — BOUNDED stand-in (schema declaration parsing and the async insert path are
// outside both verifiers): through Handler::query_program, declare `+rel(id: int, c: <type>)` for each declared
// type (int, float, string, bool, timestamp, vector, vector(N) for N in {1,2,3,255,256,384,1536}), then
//   - a bulk insert that mixes one conforming and one non-conforming row must store NOTHING,
//   - a single non-conforming row must store nothing,
//   - a conforming insert must store exactly its rows.
use super::*;
include!("/verif/witness/common.rs");

async fn count(h: &Handler, kg: Option<String>, rel: &str) -> usize {
    h.query_program(kg, format!("?{rel}(I, C)")).await.map(|r| r.total_count).unwrap_or(0)
}
fn vec_lit(n: usize) -> String { format!("[{}]", (0..n).map(|i| format!("{}.5", i % 7)).collect::<Vec<_>>().join(", ")) }

#[tokio::test]
async fn verif_witness() {
    let tmp = tempfile::tempdir().unwrap();
    let mut config = Config::default();
    config.storage.data_dir = tmp.path().to_path_buf();
    config.storage.auto_create_knowledge_graphs = true;
    let handler = Handler::from_config(config).expect("handler");
    let kg = || Some("verif_schema_kg".to_string());
    // (type text, a conforming literal, non-conforming literals)
    let mut types: Vec<(String, String, Vec<String>)> = vec![
        ("int".into(), "7".into(), vec!["\"x\"".into(), "1.5".into(), "true".into()]),
        ("float".into(), "1.5".into(), vec!["\"x\"".into(), "true".into()]),
        ("string".into(), "\"s\"".into(), vec!["7".into(), "1.5".into()]),
        ("bool".into(), "true".into(), vec!["7".into(), "\"x\"".into()]),
        ("vector".into(), vec_lit(3), vec!["7".into(), "\"x\"".into()]),
    ];
    for n in [1usize, 2, 3, 255, 256, 384, 1536] {
        types.push((format!("vector({n})"), vec_lit(n), vec![vec_lit(n + 1), vec_lit(if n > 1 { n - 1 } else { 5 }), "7".into()]));
    }
    let mut cases = 0usize;
    for (i, (ty, good, bads)) in types.iter().enumerate() {
        let rel = format!("rel{i}");
        if let Err(e) = handler.query_program(kg(), format!("+{rel}(id: int, c: {ty})")).await { vw_report(format!("declaring `+{rel}(id: int, c: {ty})` failed: {e:?}")); continue; }
        for bad in bads {
            cases += 1;
            let _ = handler.query_program(kg(), format!("+{rel}[(1, {good}), (2, {bad})]")).await;
            let n = count(&handler, kg(), &rel).await;
            if n != 0 { vw_report(format!("column declared `{ty}`: a bulk insert mixing the conforming value {} and the non-conforming value {} stored {n} row(s) instead of being rejected as a whole", &good[..good.len().min(30)], &bad[..bad.len().min(30)])); let _ = handler.query_program(kg(), format!("-{rel}(I, C) <- {rel}(I, C)")).await; }
            let _ = handler.query_program(kg(), format!("+{rel}[(3, {bad})]")).await;
            let n = count(&handler, kg(), &rel).await;
            if n != 0 { vw_report(format!("column declared `{ty}`: the non-conforming value {} was stored", &bad[..bad.len().min(30)])); let _ = handler.query_program(kg(), format!("-{rel}(I, C) <- {rel}(I, C)")).await; }
        }
        cases += 1;
        match handler.query_program(kg(), format!("+{rel}[(4, {good}), (5, {good})]")).await {
            Err(e) => vw_report(format!("column declared `{ty}`: a conforming insert was rejected: {e:?}")),
            Ok(_) => { let n = count(&handler, kg(), &rel).await; if n != 2 { vw_report(format!("column declared `{ty}`: a conforming insert of 2 rows left {n} rows")); } }
        }
    }
    vw_finish(cases);
}
