// Shared by the witness modules (include!d).  A witness module is NOT a verifier: it is a bounded search for a
// failing input on the REAL code (repository toolchain, `cargo test` in the scratch copy), run only after the
// deductive check of the same unit failed or could not judge the current text.  It turns
// "no-failing-input-found" into a concrete replayable input when it finds one; finding nothing proves nothing.
#[allow(dead_code)]
fn vw_found(desc: String) -> ! {
    println!("{}//{} {}", "VERIF-WITNESS", "FOUND", desc);
    panic!("witness found");
}
#[allow(dead_code)]
fn vw_none(cases: usize) {
    println!("{}//{} cases={}", "VERIF-WITNESS", "NONE", cases);
}
