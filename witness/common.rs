// Shared by the witness modules (include!d).  A witness module is NOT a verifier: it is a bounded search for a
// failing input on the REAL code (repository toolchain, `cargo test` in the scratch copy), run only after the
// deductive check of the same unit failed or could not judge the current text.  It turns
// "no-failing-input-found" into a concrete replayable input when it finds one; finding nothing proves nothing.
#[allow(dead_code)]
fn vw_found(desc: String) -> ! {
    println!("{}//{} {}", "VERIF-WITNESS", "FOUND", desc);
    panic!("witness found");
}
#[allow(dead_code)]
fn vw_none(cases: usize) {
    println!("{}//{} cases={}", "VERIF-WITNESS", "NONE", cases);
}

// multi-finding mode: report every failing case, keep going, fail at the end
thread_local! { static VW_FOUND: std::cell::Cell<usize> = std::cell::Cell::new(0); }
#[allow(dead_code)]
fn vw_report(desc: String) {
    println!("{}//{} {}", "VERIF-WITNESS", "FOUND", desc);
    VW_FOUND.with(|c| c.set(c.get() + 1));
}
#[allow(dead_code)]
fn vw_finish(cases: usize) {
    let n = VW_FOUND.with(|c| c.get());
    if n > 0 { panic!("witness found ({n} failing cases of {cases})"); }
    vw_none(cases);
}

/// `thorough` tier: the driver exports VERIF_TIER; the searches enlarge their stated bound
#[allow(dead_code)]
fn vw_thorough() -> bool { std::env::var("VERIF_TIER").map(|t| t == "thorough").unwrap_or(false) }
