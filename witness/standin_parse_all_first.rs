// C30 — BOUNDED stand-in (the parse-all-first loop is inlined in the async Handler::query_program, interleaved with
// storage calls: outside both verifiers).
//
// Through Handler::query_program on a knowledge graph with a fixed starting content: every program of 1..=3
// (thorough: ..=4) state-changing statements drawn from a pool of 9 (inserts, bulk inserts, deletes, a conditional
// delete, persistent rule registration, a rule drop, a schema declaration), and for each such program every position
// (before, between, after) x the malformed statements (those of 19 candidates that statement::parse_statement rejects):
//   (a) the program with the malformed statement is REJECTED and the knowledge graph (base tuples of every relation,
//       persistent rules, schemas) is exactly what it was before the request;
//   (b) the program without it is accepted and leaves the state that submitting its statements one request at a time,
//       in program order, leaves (statements take effect in program order).
use super::*;
include!("/verif/witness/common.rs");

const VP_KG: &str = "verif_kg";

fn vp_state(handler: &Handler) -> String {
    let storage = handler.storage.read();
    let snap = match storage.get_snapshot_for(VP_KG) { Ok(s) => s, Err(e) => return format!("no snapshot: {e}") };
    let mut rels: Vec<String> = snap.input_tuples.iter().filter(|(_, v)| !v.is_empty()).map(|(k, v)| {
        let mut rows: Vec<String> = v.iter().map(|t| format!("{:?}", t.values())).collect();
        rows.sort(); rows.dedup();
        format!("{k}={}", rows.join(","))
    }).collect();
    rels.sort();
    let mut rules: Vec<String> = snap.rules.iter().map(|r| format!("{r}")).collect();
    rules.sort();
    let mut schemas = storage.list_schemas_in(VP_KG).unwrap_or_default();
    schemas.sort();
    format!("relations[{}] rules[{}] schemas[{}]", rels.join(" ; "), rules.join(" ; "), schemas.join(","))
}

async fn vp_fresh() -> (Handler, tempfile::TempDir) {
    let tmp = tempfile::tempdir().unwrap();
    let mut config = Config::default();
    config.storage.data_dir = tmp.path().to_path_buf();
    config.storage.auto_create_knowledge_graphs = true;
    let handler = Handler::from_config(config).expect("handler");
    for s in ["+r1[(1,), (2,), (3,)]", "+r2[(1, 10), (2, 20)]", "+d1(X) <- r1(X), X > 1"] {
        handler.query_program(Some(VP_KG.to_string()), s.to_string()).await.expect("initial content");
    }
    (handler, tmp)
}

#[tokio::test]
async fn verif_witness() {
    let pool: [&str; 9] = [
        "+r1(7)",
        "+r3[(5, 6), (7, 8)]",
        "-r1(2)",
        "-r2(1, 10)",
        "-r1(X) <- r1(X), X > 2",
        "+d2(X, Y) <- r2(X, Y), r1(X)",
        "-d1",
        "+r4(a: int, b: string)",
        "+r1(2)",
    ];
    // "malformed" is the parser's own verdict: candidates the statement parser accepts are dropped
    let candidates = ["+r1[(1,", "+r5(1,,2)", "?r1(", "d3(X) <- ", "+d4(X) <- r1(X), ,", "-r2(1, ", "r1(X) :- r2(X)", "x := 3",
        ".nosuchcommand", "+", "?", "+(1)", "+r1(1", "-r1(X) <- ", "+d5(X) <- r1(X), X >", "?r3(X Y)", "?r1(X,,)", "?r1 X)", "?r1(X), X >"];
    let bad: Vec<&str> = candidates.iter().copied().filter(|b| statement::parse_statement(b).is_err()).collect();
    if bad.len() < 7 { panic!("fewer than 7 of the malformed candidates are rejected by parse_statement: {bad:?}"); }
    let max_len = if vw_thorough() { 4 } else { 3 };
    let mut cases = 0usize;
    // enumerate statement sequences (no repeated statement) of length 1..=max_len; thin out the longer ones
    let mut seqs: Vec<Vec<usize>> = Vec::new();
    fn rec(cur: &mut Vec<usize>, n: usize, max: usize, out: &mut Vec<Vec<usize>>) {
        if !cur.is_empty() { out.push(cur.clone()); }
        if cur.len() == max { return; }
        for i in 0..n { if !cur.contains(&i) { cur.push(i); rec(cur, n, max, out); cur.pop(); } }
    }
    rec(&mut Vec::new(), pool.len(), max_len, &mut seqs);
    // 9 + 72 + 504 (+ 3024) sequences: keep every sequence of length <= 2, every 6th longer one
    let seqs: Vec<Vec<usize>> = seqs.into_iter().enumerate().filter(|(i, s)| s.len() <= 2 || i % 6 == 0).map(|(_, s)| s).collect();
    let (handler, _tmp) = vp_fresh().await;
    let initial = vp_state(&handler);
    for (si, seq) in seqs.iter().enumerate() {
        // (a) malformed statement at every position: rejected, state unchanged.  One shared handler: the state must
        // stay `initial` throughout, which is itself the claim.
        for pos in 0..=seq.len() {
            let b = bad[(si + pos) % bad.len()];
            let mut lines: Vec<&str> = seq.iter().map(|&i| pool[i]).collect();
            lines.insert(pos, b);
            let prog = lines.join("\n");
            cases += 1;
            let r = handler.query_program(Some(VP_KG.to_string()), prog.clone()).await;
            let after = vp_state(&handler);
            if r.is_ok() { vw_report(format!("program {:?} contains the malformed statement `{b}` but was accepted", lines)); }
            if after != initial {
                vw_report(format!("program {:?} with the malformed statement `{b}` at position {pos} changed the knowledge graph: before {initial} after {after}", lines));
                return vw_finish(cases);   // the shared handler is no longer in the initial state
            }
        }
        // (b) the well-formed program == its statements one request at a time, in order
        if seq.len() >= 2 && si % 3 == 0 {
            let (h1, _t1) = vp_fresh().await;
            let (h2, _t2) = vp_fresh().await;
            let lines: Vec<&str> = seq.iter().map(|&i| pool[i]).collect();
            let r1 = h1.query_program(Some(VP_KG.to_string()), lines.join("\n")).await;
            let mut r2_ok = true;
            for l in &lines { if h2.query_program(Some(VP_KG.to_string()), l.to_string()).await.is_err() { r2_ok = false; break; } }
            cases += 1;
            if r1.is_ok() && r2_ok {
                let (s1, s2) = (vp_state(&h1), vp_state(&h2));
                if s1 != s2 { vw_report(format!("program {:?}: as one request it leaves {s1}; statement by statement in program order it leaves {s2}", lines)); }
            } else if r1.is_ok() != r2_ok {
                // a statement that fails at execution time stops the program at that statement in both modes;
                // only the acceptance verdicts are compared
                vw_report(format!("program {:?}: as one request {} but statement by statement {}", lines,
                    if r1.is_ok() { "accepted" } else { "refused" }, if r2_ok { "accepted" } else { "refused" }));
            }
        }
    }
    vw_finish(cases);
}
