// C35, slice and sort clauses — BOUNDED stand-in (CBMC runs out of memory on 3 rows; Verus rejects the iterator
// chain): apply_pagination against the slice definition for every (len <= 6, limit in {None,0..8}, offset in
// {None,0..8}); sort_rows on every sequence of <= 4 rows drawn from a pool of 11 mixed-kind values (NaN of both
// signs, +-0.0, integers beyond 2^53, strings, Null, a missing column), both directions: the result is a
// permutation of the input and adjacent rows are in order under compare_wire_values; sorting never panics.
use super::*;
include!("/verif/witness/common.rs");

fn row(v: Option<WireValue>, id: i64) -> WireTuple {
    let mut values = Vec::new();
    if let Some(x) = v { values.push(x); }
    // second column = identity so that permutations can be checked; rows with a missing first column have 1 value
    let mut t = WireTuple { values, provenance: None };
    t.values.push(WireValue::Int64(id));
    t
}
fn pool() -> Vec<Option<WireValue>> {
    vec![Some(WireValue::Int64(0)), Some(WireValue::Int64(9_007_199_254_740_993)), Some(WireValue::Float64(9_007_199_254_740_992.0)),
         Some(WireValue::Float64(0.0)), Some(WireValue::Float64(-0.0)), Some(WireValue::Float64(f64::NAN)), Some(WireValue::Float64(-f64::NAN)),
         Some(WireValue::Float64(-1.5)), Some(WireValue::String("a".to_string())), Some(WireValue::Null), Some(WireValue::Int32(-3))]
}
#[test]
fn verif_witness() {
    let mut cases = 0usize;
    // pagination
    for len in 0..=(if vw_thorough() { 12usize } else { 6 }) {
        let rows: Vec<WireTuple> = (0..len).map(|i| row(Some(WireValue::Int64(i as i64)), i as i64)).collect();
        for limit in std::iter::once(None).chain((0..=8usize).map(Some)) {
            for offset in std::iter::once(None).chain((0..=8usize).map(Some)) {
                let got = apply_pagination(rows.clone(), limit, offset);
                let s = offset.unwrap_or(0).min(len);
                let e = match limit { Some(n) => (s + n).min(len), None => len };
                cases += 1;
                let want = &rows[s..e];
                let same = got.len() == want.len() && got.iter().zip(want.iter()).all(|(a, b)| a.values == b.values);
                if !same { vw_found(format!("apply_pagination({len} rows, limit {:?}, offset {:?}) returned {} rows, the slice [{s}..{e}) has {}", limit, offset, got.len(), want.len())); }
            }
        }
    }
    // sorting
    let pool = pool();
    for len in 1..=(if vw_thorough() { 5usize } else { 4 }) {
        let total = pool.len().pow(len as u32);
        for code in 0..total {
            let mut c = code; let mut rows = Vec::new();
            for i in 0..len { rows.push(row(pool[c % pool.len()].clone(), i as i64)); c /= pool.len(); }
            for dir in [SortDirection::Asc, SortDirection::Desc] {
                let sorted = sort_rows(rows.clone(), &[(0, dir)]);
                cases += 1;
                // with a 2-column row the sort key is column 0; rows whose first column is "missing" are 1 shorter —
                // here every row has the id as LAST value, and the key column 0 is the drawn value
                if sorted.len() != rows.len() { vw_found(format!("sort_rows changed the number of rows ({} -> {})", rows.len(), sorted.len())); }
                let mut ids: Vec<i64> = sorted.iter().map(|r| match r.values.last() { Some(WireValue::Int64(i)) => *i, _ => -1 }).collect();
                ids.sort();
                if ids != (0..len as i64).collect::<Vec<_>>() { vw_found(format!("sort_rows did not return a permutation of its input (row ids {:?})", ids)); }
                for w in sorted.windows(2) {
                    let o = compare_wire_values(w[0].values.get(0), w[1].values.get(0));
                    let o = if matches!(dir, SortDirection::Asc) { o } else { o.reverse() };
                    if o == std::cmp::Ordering::Greater {
                        vw_found(format!("sort_rows({:?}) output is not sorted: {:?} is placed before {:?}", dir, w[0].values.get(0), w[1].values.get(0)));
                    }
                }
            }
        }
    }
    vw_none(cases);
}
