// C05 witness search (push-down site) on the real Optimizer::pushdown_filters: Filter(Join(Scan l, Scan r, keys), col > 5)
// for every left width <= 3, right arity <= 4, key subsets of size <= 2 and every tested right-side join-output
// column.  If the filter ends up on the right input, the column it tests must be the right-input column that the
// join output (left ++ right non-key columns) shows at the tested position.
use super::*;
include!("/verif/witness/common.rs");

fn scan(name: &str, n: usize) -> IRNode { IRNode::Scan { relation: name.to_string(), schema: (0..n).map(|i| format!("{name}{i}")).collect() } }
fn nth_nonkey(keys: &[usize], p: usize, arity: usize) -> Option<usize> {
    let mut seen = 0;
    for c in 0..arity { if !keys.contains(&c) { if seen == p { return Some(c); } seen += 1; } }
    None
}
#[test]
fn verif_witness() {
    let opt = Optimizer::new();
    let mut cases = 0usize;
    for lw in 1..=3usize { for rw in 1..=4usize {
        let mut keysets: Vec<Vec<usize>> = vec![vec![]];
        for a in 0..rw { keysets.push(vec![a]); for b in 0..rw { if a != b { keysets.push(vec![a, b]); } } }
        for rk in keysets {
            if rk.len() > lw { continue; }
            let lk: Vec<usize> = (0..rk.len()).collect();
            let out_w = lw + rw - rk.len();
            for col in lw..out_w {
                let schema: Vec<String> = (0..out_w).map(|i| format!("o{i}")).collect();
                let ir = IRNode::Filter { input: Box::new(IRNode::Join { left: Box::new(scan("l", lw)), right: Box::new(scan("r", rw)),
                    left_keys: lk.clone(), right_keys: rk.clone(), output_schema: schema }), predicate: Predicate::ColumnGtConst(col, 5) };
                let res = opt.pushdown_filters(ir);
                cases += 1;
                // two-column predicate over the right side: both columns must be remapped consistently
                for col2 in lw..out_w {
                    let schema2: Vec<String> = (0..out_w).map(|i| format!("o{i}")).collect();
                    let ir2 = IRNode::Filter { input: Box::new(IRNode::Join { left: Box::new(scan("l", lw)), right: Box::new(scan("r", rw)),
                        left_keys: lk.clone(), right_keys: rk.clone(), output_schema: schema2 }), predicate: Predicate::ColumnsLt(col, col2) };
                    cases += 1;
                    if let IRNode::Join { right, .. } = &opt.pushdown_filters(ir2) {
                        if let IRNode::Filter { predicate: Predicate::ColumnsLt(c1, c2), .. } = right.as_ref() {
                            let (w1, w2) = (nth_nonkey(&rk, col - lw, rw), nth_nonkey(&rk, col2 - lw, rw));
                            if w1 != Some(*c1) || w2 != Some(*c2) {
                                vw_found(format!("Filter(col {col} < col {col2}) over Join(left width {lw}, right arity {rw}, right_keys {:?}) was pushed into the right input as col {c1} < col {c2}, but those join-output columns show right-input columns {:?} and {:?}", rk, w1, w2));
                            }
                        }
                    }
                }
                if let IRNode::Join { right, .. } = &res {
                    if let IRNode::Filter { predicate: Predicate::ColumnGtConst(c, _), .. } = right.as_ref() {
                        let want = nth_nonkey(&rk, col - lw, rw);
                        if want != Some(*c) {
                            vw_found(format!("Filter(col {col} > 5) over Join(left width {lw}, right arity {rw}, right_keys {:?}) was pushed into the right input as col {c} > 5, but join-output column {col} shows right-input column {:?}", rk, want));
                        }
                    }
                }
            }
        }
    } }
    vw_none(cases);
}
