// C05 witness search (push-down site) on the real Optimizer::pushdown_filters: Filter(Join(Scan l, Scan r, keys), col > 5)
// for every left width <= 3, right arity <= 4, key subsets of size <= 2 and every tested right-side join-output
// column.  If the filter ends up on the right input, the column it tests must be the right-input column that the
// join output (left ++ right non-key columns) shows at the tested position.
use super::*;
include!("/verif/witness/common.rs");

fn scan(name: &str, n: usize) -> IRNode { IRNode::Scan { relation: name.to_string(), schema: (0..n).map(|i| format!("{name}{i}")).collect() } }
fn nth_nonkey(keys: &[usize], p: usize, arity: usize) -> Option<usize> {
    let mut seen = 0;
    for c in 0..arity { if !keys.contains(&c) { if seen == p { return Some(c); } seen += 1; } }
    None
}
#[test]
fn verif_witness() {
    let opt = Optimizer::new();
    let mut cases = 0usize;
    for lw in 1..=3usize { for rw in 1..=4usize {
        let mut keysets: Vec<Vec<usize>> = vec![vec![]];
        for a in 0..rw { keysets.push(vec![a]); for b in 0..rw { if a != b { keysets.push(vec![a, b]); } } }
        for rk in keysets {
            if rk.len() > lw { continue; }
            let lk: Vec<usize> = (0..rk.len()).collect();
            let out_w = lw + rw - rk.len();
            for col in lw..out_w {
                let schema: Vec<String> = (0..out_w).map(|i| format!("o{i}")).collect();
                let ir = IRNode::Filter { input: Box::new(IRNode::Join { left: Box::new(scan("l", lw)), right: Box::new(scan("r", rw)),
                    left_keys: lk.clone(), right_keys: rk.clone(), output_schema: schema }), predicate: Predicate::ColumnGtConst(col, 5) };
                let res = opt.pushdown_filters(ir);
                cases += 1;
                if let IRNode::Join { right, .. } = &res {
                    if let IRNode::Filter { predicate: Predicate::ColumnGtConst(c, _), .. } = right.as_ref() {
                        let want = nth_nonkey(&rk, col - lw, rw);
                        if want != Some(*c) {
                            vw_found(format!("Filter(col {col} > 5) over Join(left width {lw}, right arity {rw}, right_keys {:?}) was pushed into the right input as col {c} > 5, but join-output column {col} shows right-input column {:?}", rk, want));
                        }
                    }
                }
            }
        }
    } }
    vw_none(cases);
}
