// C33 witness search (conformance table) on the real SchemaType::matches.
use super::*;
use crate::value::Value;
include!("/verif/witness/common.rs");

fn kind(v: &Value) -> usize { match v { Value::Int32(_) => 0, Value::Int64(_) => 1, Value::Float64(_) => 2, Value::String(_) => 3, Value::Bool(_) => 4, Value::Null => 5, Value::Vector(_) => 6, Value::VectorInt8(_) => 7, Value::Timestamp(_) => 8 } }
fn vlen(v: &Value) -> Option<usize> { match v { Value::Vector(x) => Some(x.len()), Value::VectorInt8(x) => Some(x.len()), _ => None } }
fn conforms(t: &SchemaType, v: &Value) -> bool {
    let k = kind(v);
    match t {
        SchemaType::Int => k == 0 || k == 1,
        SchemaType::Float => k == 2 || k == 0 || k == 1,
        SchemaType::Symbol | SchemaType::String => k == 3,
        SchemaType::Bool => k == 4,
        SchemaType::Timestamp => k == 8 || k == 1,
        SchemaType::Vector { dim: Some(n) } => vlen(v) == Some(*n),
        SchemaType::Vector { dim: None } => vlen(v).is_some(),
        SchemaType::Any | SchemaType::Named(_) => true,
    }
}
#[test]
fn verif_witness() {
    let types = vec![SchemaType::Int, SchemaType::Float, SchemaType::Symbol, SchemaType::String, SchemaType::Bool, SchemaType::Timestamp,
        SchemaType::Vector { dim: None }, SchemaType::Vector { dim: Some(0) }, SchemaType::Vector { dim: Some(1) }, SchemaType::Vector { dim: Some(2) },
        SchemaType::Vector { dim: Some(3) }, SchemaType::Any, SchemaType::Named("Email".to_string())];
    let values = vec![Value::Int32(-1), Value::Int64(i64::MAX), Value::Float64(f64::NAN), Value::Float64(-0.0), Value::string(""), Value::string("a"),
        Value::Bool(true), Value::Null, Value::vector(vec![]), Value::vector(vec![1.0]), Value::vector(vec![1.0, 2.0, 3.0]),
        Value::vector_int8(vec![]), Value::vector_int8(vec![1, 2]), Value::Timestamp(0)];
    let mut cases = 0;
    for t in &types { for v in &values {
        cases += 1;
        if t.matches(v) != conforms(t, v) { vw_found(format!("SchemaType {:?} .matches({:?}) = {} but the type table says {}", t, v, t.matches(v), conforms(t, v))); }
    } }
    vw_none(cases);
}
