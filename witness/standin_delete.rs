// C32, delete clause — BOUNDED stand-in (retain over a HashSet<&Tuple> is outside Verus; KnowledgeGraph cannot be
// built under CBMC): insert a set, then delete batches that mix present, absent and repeated tuples; the reported
// count must equal the number of tuples that actually left the relation, and the relation must equal the model.
use super::*;
use std::collections::HashSet;
include!("/verif/witness/common.rs");

#[test]
fn verif_witness() {
    let mut cases = 0usize;
    for &n in &[0usize, 1, 2, 5, 300] {
        for del in [vec![0usize], vec![0, 0], vec![0, 1, 0], vec![7], vec![0, 7], vec![1, 2, 3, 2, 1], (0..400).collect::<Vec<usize>>()] {
            let temp = tempfile::TempDir::new().unwrap();
            let mut config = crate::Config::default();
            config.storage.data_dir = temp.path().to_path_buf();
            let storage = StorageEngine::new(config).unwrap();
            let mut model: HashSet<(i32, i32)> = (0..n as i32).map(|i| (i, i * 3)).collect();
            if n > 0 { storage.insert("r", model.iter().cloned().collect()).unwrap(); }
            let batch: Vec<(i32, i32)> = del.iter().map(|&i| (i as i32, i as i32 * 3)).collect();
            let mut expect = 0usize;
            for t in &batch { if model.remove(t) { expect += 1; } }
            let got = storage.delete("r", batch.clone()).unwrap();
            cases += 1;
            if got != expect { vw_found(format!("relation of {n} tuples, delete batch of {} tuples (indices {:?}...): reported {got} removed, {expect} actually present", batch.len(), &del[..del.len().min(6)])); }
            let snap = storage.get_snapshot_for("default").unwrap();
            let rows = snap.input_tuples.get("r").cloned().unwrap_or_default();
            if rows.len() != model.len() { vw_found(format!("relation of {n} tuples after deleting indices {:?}...: {} rows stored, model has {}", &del[..del.len().min(6)], rows.len(), model.len())); }
        }
    }
    vw_none(cases);
}
