// C03, whole-engine clause — BOUNDED stand-in (the DD executions and the rayon call site execute_with_config are
// outside both verifiers; the deductive unit covers the guard `contains_join` only): a fixed list of programs
// covering every operator class (scan, projection, filter, computed column, union, join, antijoin, aggregates:
// count/sum/min/max, aggregate over filter / over join, UNION OF AGGREGATES over the same relation with different
// group columns) evaluated with 2, 3, 4 and 8 workers against the single-worker answer, on a 42-edge graph.
use super::*;
use crate::value::{Tuple, Value};
use crate::IQLEngine;
include!("/verif/witness/common.rs");

fn t2(a: i64, b: i64) -> Tuple { Tuple::new(vec![Value::Int64(a), Value::Int64(b)]) }
fn run(workers: usize, program: &str) -> Result<Vec<Tuple>, String> {
    let mut e = IQLEngine::new();
    e.set_num_workers(workers);
    let mut edges = Vec::new();
    for s in 0..6i64 { for d in 100..107i64 { edges.push(t2(s, d)); } }
    e.add_tuples("edge", edges);
    e.add_tuples("lab", (100..107i64).map(|d| t2(d, d % 3)).collect());
    e.add_tuples("node", (0..9i64).map(|n| Tuple::new(vec![Value::Int64(n)])).collect());
    let mut out = e.execute_tuples(program)?;
    out.sort(); out.dedup();
    Ok(out)
}
#[test]
fn verif_witness() {
    let programs = [
        "q(X,Y) <- edge(X,Y)",
        "q(X) <- edge(X,Y)",
        "q(Y) <- edge(X,Y)",
        "q(X,Y) <- edge(X,Y), Y > 102",
        "q(X,Z) <- edge(X,Y), Z = X + Y",
        "q(X) <- edge(X,Y)\nq(Y) <- edge(X,Y)",
        "q(X,Z) <- edge(X,Y), lab(Y,Z)",
        "q(X,Z) <- edge(X,Y), lab(Y,Z), Z > 0",
        "q(X) <- node(X), !edge(X,100)",
        "c(N, count<M>) <- edge(N,M)",
        "c(M, count<N>) <- edge(N,M)",
        "s(N, sum<M>) <- edge(N,M)",
        "m(N, min<M>) <- edge(N,M)",
        "m(N, max<M>) <- edge(N,M)",
        "c(N, count<M>) <- edge(N,M), M > 102",
        "c(X, count<Z>) <- edge(X,Y), lab(Y,Z)",
        "deg(N, count<M>) <- edge(N,M)\ndeg(N, count<M>) <- edge(M,N)",
        "deg(N, sum<M>) <- edge(N,M)\ndeg(N, sum<M>) <- edge(M,N)",
        "deg(N, count<M>) <- edge(N,M)\ndeg(Z, count<Y>) <- lab(Y,Z)",
        "q(N, C) <- edge(N,M), C = M - 100\nq(N, C) <- lab(N, C)",
    ];
    let mut cases = 0usize; let mut skipped = 0usize;
    for p in programs {
        let base = match run(1, p) { Ok(b) => b, Err(_) => { skipped += 1; continue; } };
        for w in [2usize, 3, 4, 8] {
            cases += 1;
            match run(w, p) {
                Ok(got) => if got != base {
                    vw_found(format!("program `{}` on the 42-edge graph: {} rows with 1 worker, {} rows with {} workers (first difference: {:?} vs {:?})",
                        p.replace('\n', " ; "), base.len(), got.len(), w, base.iter().find(|t| !got.contains(t)), got.iter().find(|t| !base.contains(t))));
                },
                Err(e) => vw_found(format!("program `{}` runs with 1 worker but fails with {} workers: {}", p.replace('\n', " ; "), w, e)),
            }
        }
    }
    if skipped > 6 { vw_found(format!("{skipped} of {} stand-in programs no longer run with one worker", programs.len())); }
    println!("skipped programs: {skipped}");
    vw_none(cases);
}
