// C34 — BOUNDED stand-in (find_sccs / validate_rules_stratification work on HashMap<String, HashSet<String>> with
// recursion and format!: measured out of CBMC's reach and outside Verus' subset; the request handler is async).
//
// Part 1, the function: `validate_rules_stratification` on EVERY rule set over 3 predicates p0,p1,p2 in which each
// ordered pair (head, body predicate), self pairs included, carries no dependency, a positive one, a negated one, or
// both (4^9 = 262 144 rule sets; thorough adds 200 000 pseudo-random rule sets over 5 predicates).  Oracle, from the
// property statement: the set is rejected  <=>  some negated dependency h -/-> b lies on a dependency cycle
// (b reaches h through dependencies of either sign; b == h counts).
//
// Part 2, the entry points: through Handler::query_program, every assignment of the clauses of 12 small rule sets
// (6 with recursion through negation, 6 stratified) to {persistent rule, session rule}: a set with recursion through
// negation must be refused at registration or at the query (never answered); a stratified set must be accepted and
// answered.
use super::*;
include!("/verif/witness/common.rs");

fn vs_rule(h: usize, b: usize, neg: bool) -> crate::ast::Rule {
    let t = if neg { format!("p{h}(X) <- base(X), !p{b}(X)") } else { format!("p{h}(X) <- base(X), p{b}(X)") };
    crate::parser::parse_rule(&t).expect("rule parses")
}

/// oracle: is some negated dependency on a cycle?  pos/neg: adjacency matrices (head -> body predicate)
fn vs_unstratified(n: usize, pos: &[Vec<bool>], neg: &[Vec<bool>]) -> bool {
    let mut reach = vec![vec![false; n]; n];
    for i in 0..n { reach[i][i] = true; for j in 0..n { if pos[i][j] || neg[i][j] { reach[i][j] = true; } } }
    for k in 0..n { for i in 0..n { for j in 0..n { if reach[i][k] && reach[k][j] { reach[i][j] = true; } } } }
    for h in 0..n { for b in 0..n { if neg[h][b] && reach[b][h] { return true; } } }
    false
}

fn vs_check_function(n: usize, pos: &[Vec<bool>], neg: &[Vec<bool>], table: &[Vec<[crate::ast::Rule; 2]>]) -> bool {
    let mut rules = Vec::new();
    let mut text = Vec::new();
    for h in 0..n { for b in 0..n {
        if pos[h][b] { rules.push(table[h][b][0].clone()); text.push(format!("p{h} <- p{b}")); }
        if neg[h][b] { rules.push(table[h][b][1].clone()); text.push(format!("p{h} <- !p{b}")); }
    } }
    let got = crate::rule_catalog::validate_rules_stratification(&rules);
    let want_reject = vs_unstratified(n, pos, neg);
    if got.is_err() != want_reject {
        vw_report(format!("validate_rules_stratification on [{}]: {} but the set {} recursion through negation",
            text.join("; "), if got.is_err() { "rejected" } else { "accepted" }, if want_reject { "has" } else { "has no" }));
        return false;
    }
    true
}

fn vs_table(n: usize) -> Vec<Vec<[crate::ast::Rule; 2]>> {
    (0..n).map(|h| (0..n).map(|b| [vs_rule(h, b, false), vs_rule(h, b, true)]).collect()).collect()
}

#[tokio::test]
async fn verif_witness() {
    let mut cases = 0usize;
    // ---------------------------------------------------------------- part 1: the function, exhaustively on 3 predicates
    let n = 3usize;
    let table = vs_table(n);
    let mut bad = 0usize;
    for code in 0u32..(1 << 18) {
        let mut pos = vec![vec![false; n]; n];
        let mut neg = vec![vec![false; n]; n];
        for c in 0..9 { let v = (code >> (2 * c)) & 3; pos[c / 3][c % 3] = v & 1 != 0; neg[c / 3][c % 3] = v & 2 != 0; }
        cases += 1;
        if !vs_check_function(n, &pos, &neg, &table) { bad += 1; if bad >= 12 { break; } }
    }
    if vw_thorough() && bad == 0 {
        let n = 5usize;
        let table = vs_table(n);
        let mut s: u64 = 0x9E37_79B9_7F4A_7C15;
        for _ in 0..200_000 {
            let mut pos = vec![vec![false; n]; n];
            let mut neg = vec![vec![false; n]; n];
            for h in 0..n { for b in 0..n {
                s = s.wrapping_mul(6364136223846793005).wrapping_add(1442695040888963407);
                let r = (s >> 33) % 10;   // sparse: 70% no dependency
                pos[h][b] = r == 7 || r == 9; neg[h][b] = r == 8 || r == 9;
            } }
            cases += 1;
            if !vs_check_function(n, &pos, &neg, &table) { bad += 1; if bad >= 12 { break; } }
        }
    }
    // ---------------------------------------------------------------- part 2: the entry points
    // (clauses, has recursion through negation)
    let sets: Vec<(Vec<&str>, bool)> = vec![
        (vec!["a(X) <- base(X), !b(X)", "b(X) <- base(X), !a(X)"], true),
        (vec!["a(X) <- base(X), !b(X)", "b(X) <- base(X), a(X)"], true),
        (vec!["a(X) <- base(X), b(X)", "b(X) <- base(X), !a(X)"], true),
        (vec!["a(X) <- base(X), !b(X)", "b(X) <- base(X), c(X)", "c(X) <- base(X), a(X)"], true),
        (vec!["a(X) <- base(X), b(X)", "b(X) <- base(X), c(X)", "c(X) <- base(X), !a(X)"], true),
        (vec!["a(X) <- base(X), !c(X)", "c(X) <- base(X), !b(X)", "b(X) <- base(X), !a(X)"], true),
        (vec!["a(X) <- base(X), !b(X)", "b(X) <- base(X), X > 1"], false),
        (vec!["a(X) <- base(X), !b(X)", "b(X) <- base(X), c(X)", "c(X) <- base(X), X > 2"], false),
        (vec!["a(X) <- base(X), b(X)", "b(X) <- base(X), a(X)"], false),
        (vec!["a(X) <- base(X), !b(X)", "b(X) <- base(X), c(X)", "c(X) <- base(X), b(X)"], false),
        (vec!["a(X) <- base(X), !b(X), !c(X)", "b(X) <- base(X), !c(X)", "c(X) <- base(X), X > 2"], false),
        (vec!["a(X) <- base(X), b(X)", "b(X) <- base(X), !c(X)", "c(X) <- base(X), X > 1"], false),
    ];
    for (si, (clauses, unstrat)) in sets.iter().enumerate() {
        for mask in 0u32..(1 << clauses.len()) {   // bit i set: clause i is persistent, else a session rule
            let tmp = tempfile::tempdir().unwrap();
            let mut config = Config::default();
            config.storage.data_dir = tmp.path().to_path_buf();
            config.storage.auto_create_knowledge_graphs = true;
            let handler = Handler::from_config(config).expect("handler");
            let kg = || Some("verif_kg".to_string());
            handler.query_program(kg(), "+base[(1,), (2,), (3,), (4,)]".to_string()).await.expect("insert base");
            cases += 1;
            let mut refused = false;
            let mut desc = Vec::new();
            for (i, c) in clauses.iter().enumerate() {
                if mask & (1 << i) != 0 {
                    desc.push(format!("persistent `{c}`"));
                    if handler.query_program(kg(), format!("+{c}")).await.is_err() { refused = true; }
                }
            }
            let mut prog = String::new();
            for (i, c) in clauses.iter().enumerate() {
                if mask & (1 << i) == 0 { desc.push(format!("session `{c}`")); prog.push_str(c); prog.push('\n'); }
            }
            prog.push_str("?a(X)");
            let r = handler.query_program(kg(), prog).await;
            if r.is_err() { refused = true; }
            if *unstrat && !refused {
                vw_report(format!("rule set #{si} with recursion through negation [{}] was accepted and the query `?a(X)` answered with {} rows",
                    desc.join(", "), r.as_ref().map(|x| x.rows.len()).unwrap_or(0)));
            }
            if !*unstrat && refused {
                vw_report(format!("stratified rule set #{si} [{}] was refused: {}", desc.join(", "),
                    r.as_ref().err().map(|e| format!("{e:?}")).unwrap_or_else(|| "a persistent clause was rejected".to_string())));
            }
        }
    }
    vw_finish(cases);
}
