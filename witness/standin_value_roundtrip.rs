// C12, whole-engine clause — BOUNDED stand-in (WAL JSON, Arrow and Parquet are outside both verifiers): one relation
// per value kind (homogeneous columns), one with Nulls inside typed columns, vectors of several dimensions, and
// mixed-kind relations; inserted through StorageEngine::insert_tuples_into, then (a) restart without save (WAL
// replay) and (b) save + restart; the stored tuples must come back with identical values AND value kinds.
// Case names (`rel=...`) identify the relation so that known findings can be listed per relation.
use super::*;
use crate::value::Value;
include!("/verif/witness/common.rs");

fn row(v: Vec<Value>) -> Tuple { Tuple::new(v) }
fn relations() -> Vec<(&'static str, Vec<Tuple>)> {
    vec![
        ("homog_int32", vec![row(vec![Value::Int32(i32::MIN), Value::Int32(7)]), row(vec![Value::Int32(-1), Value::Int32(i32::MAX)])]),
        ("homog_int64", vec![row(vec![Value::Int64(i64::MIN), Value::Int64(7)]), row(vec![Value::Int64(9_007_199_254_740_993), Value::Int64(i64::MAX)])]),
        ("homog_float64", vec![row(vec![Value::Float64(-0.0), Value::Float64(1.5)]), row(vec![Value::Float64(f64::NAN), Value::Float64(f64::INFINITY)]),
                               row(vec![Value::Float64(f64::from_bits(0xfff8_0000_0000_0001)), Value::Float64(f64::MIN_POSITIVE)])]),
        ("homog_string", vec![row(vec![Value::string(""), Value::string("a b")]), row(vec![Value::string("é\u{0}\"\\"), Value::string("x")])]),
        ("homog_bool", vec![row(vec![Value::Bool(true), Value::Bool(false)]), row(vec![Value::Bool(false), Value::Bool(false)])]),
        ("null_in_typed_columns", vec![row(vec![Value::Int64(1), Value::string("s"), Value::Float64(2.0), Value::Bool(true)]),
                                      row(vec![Value::Null, Value::Null, Value::Null, Value::Null])]),
        ("all_null", vec![row(vec![Value::Null, Value::Null])]),
        ("vector_f32", vec![row(vec![Value::Int64(1), Value::vector(vec![0.5, -0.0, f32::NAN])]), row(vec![Value::Int64(2), Value::vector(vec![1.0, 2.0, 3.0])])]),
        ("vector_int8", vec![row(vec![Value::Int64(1), Value::vector_int8(vec![-128, 0, 127])]), row(vec![Value::Int64(2), Value::vector_int8(vec![1, 2, 3])])]),
        ("homog_timestamp", vec![row(vec![Value::Timestamp(0), Value::Timestamp(1_700_000_000_000)]), row(vec![Value::Timestamp(-1), Value::Timestamp(5)])]),
        ("mixed_int_then_string", vec![row(vec![Value::Int64(1)]), row(vec![Value::string("x")])]),
        ("mixed_int32_then_int64", vec![row(vec![Value::Int32(1)]), row(vec![Value::Int64(5_000_000_000)])]),
        ("mixed_float_then_int", vec![row(vec![Value::Float64(1.5)]), row(vec![Value::Int64(2)])]),
        ("mixed_vector_dims", vec![row(vec![Value::vector(vec![1.0, 2.0])]), row(vec![Value::vector(vec![1.0, 2.0, 3.0])])]),
    ]
}
fn cfg(dir: std::path::PathBuf) -> crate::Config { let mut c = crate::Config::default(); c.storage.data_dir = dir; c }
fn stored(s: &StorageEngine, rel: &str) -> Result<Vec<Tuple>, String> {
    let snap = s.get_snapshot_for("kg").map_err(|e| format!("{e}"))?;
    let mut v = snap.input_tuples.get(rel).cloned().unwrap_or_default();
    v.sort();
    Ok(v)
}
#[test]
fn verif_witness() {
    let mut cases = 0usize;
    for save in [false, true] {
        for (rel, tuples) in relations() {
            let temp = tempfile::TempDir::new().unwrap();
            let mut want = tuples.clone(); want.sort();
            {
                let s = StorageEngine::new(cfg(temp.path().to_path_buf())).unwrap();
                s.create_knowledge_graph("kg").unwrap();
                if let Err(e) = s.insert_tuples_into("kg", rel, tuples.clone()) {
                    // a rejected insert stores nothing: not a violation of "accepted tuples survive"
                    println!("rel={rel}: insert rejected ({e})"); continue;
                }
                if save { if let Err(e) = s.save_knowledge_graph("kg") { cases += 1; vw_report(format!("rel={rel} [save + restart]: save fails: {e}")); continue; } }
            }
            cases += 1;
            let how = if save { "save + restart" } else { "restart (WAL replay)" };
            match StorageEngine::new(cfg(temp.path().to_path_buf())) {
                Err(e) => vw_report(format!("rel={rel} [{how}]: the store does not reopen: {e}")),
                Ok(s) => match stored(&s, rel) {
                    Err(e) => vw_report(format!("rel={rel} [{how}]: relation unreadable after restart: {e}")),
                    Ok(got) => if got != want {
                        vw_report(format!("rel={rel} [{how}]: stored {:?} but recovered {:?}", want, got));
                    },
                },
            }
        }
    }
    vw_finish(cases);
}
