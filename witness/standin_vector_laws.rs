// C26 — BOUNDED stand-in for what the verifiers do not reach (float laws above dimension 2, quantisation error,
// LSH buckets vs the hyperplane cache — sequentially; cache independence under CONCURRENT use is not explored):
// deterministic pseudo-random vectors of dimension 0..33 with zero / negative / large-magnitude / tiny elements.
//   distances: symmetric bit-for-bit, never negative or NaN, zero on identical input (euclidean, manhattan exactly;
//   cosine(a,a) is reported per case — rounding leaves ~1 ulp at dimension >= 2, a known finding), cosine in [0,2];
//   symmetric int8 quantisation: |x - q(x)*max_abs/127| <= half a step (+ rounding slack);
//   lsh_bucket(v, table, h) is the same before and after clearing the cache, shrinking it to 1 entry (eviction) and
//   computing unrelated buckets in between.
use super::*;
include!("/verif/witness/common.rs");

struct Lcg(u64);
impl Lcg {
    fn next(&mut self) -> u64 { self.0 = self.0.wrapping_mul(6364136223846793005).wrapping_add(1442695040888963407); self.0 >> 11 }
    fn f(&mut self) -> f32 {
        let r = self.next();
        let base = ((r % 2001) as f32 - 1000.0) / 100.0;
        match (r >> 20) % 11 { 0 => 0.0, 1 => -0.0, 2 => base * 1.0e18, 3 => base * 1.0e-20, 4 => 1.0e30, 5 => -3.0e38, _ => base }
    }
    fn vec(&mut self, n: usize) -> Vec<f32> { (0..n).map(|_| self.f()).collect() }
}
#[test]
fn verif_witness() {
    let mut g = Lcg(0x5eed_1234_abcd);
    let mut cases = 0usize;
    for &dim in &[0usize, 1, 2, 3, 4, 8, 16, 33] {
        for _ in 0..60 {
            let a = g.vec(dim); let b = g.vec(dim);
            cases += 1;
            for (name, f) in [("euclidean_distance", euclidean_distance as fn(&[f32], &[f32]) -> f64), ("manhattan_distance", manhattan_distance), ("cosine_distance", cosine_distance)] {
                let (d1, d2) = (f(&a, &b), f(&b, &a));
                if d1.to_bits() != d2.to_bits() { vw_report(format!("{name} is not symmetric: f(a,b)={d1:e} f(b,a)={d2:e} for a={:?} b={:?}", a, b)); }
                if d1.is_nan() || d1 < 0.0 { vw_report(format!("{name}(a,b) = {d1:e} (negative or NaN) for finite a={:?} b={:?}", a, b)); }
                let s = f(&a, &a);
                if name != "cosine_distance" && s != 0.0 { vw_report(format!("{name}(a,a) = {s:e}, not zero, for a={:?}", a)); }
                if name == "cosine_distance" {
                    if !(d1 >= 0.0 && d1 <= 2.0) { vw_report(format!("cosine_distance(a,b) = {d1:e} outside [0,2] for a={:?} b={:?}", a, b)); }
                    if s != 0.0 { vw_report(format!("cosine_distance(a,a) = {s:e}, not zero (dimension {dim})")); }
                }
            }
            // symmetric quantisation error
            let small: Vec<f32> = a.iter().map(|x| if x.abs() > 1.0e6 || (x.abs() < 1.0e-6 && *x != 0.0) { 1.0 } else { *x }).collect();
            let max_abs = small.iter().fold(0.0f32, |m, x| m.max(x.abs()));
            if max_abs > 0.0 {
                let q = quantize_vector_symmetric(&small);
                let back = dequantize_vector_with_scale(&q, max_abs / 127.0);
                let step = max_abs / 127.0;
                for (x, y) in small.iter().zip(back.iter()) {
                    if (x - y).abs() > 0.5 * step * 1.001 + 1.0e-6 { vw_report(format!("symmetric int8 quantisation: {x} comes back as {y}, step is {step}")); }
                }
            }
        }
    }
    // LSH buckets vs cache state (sequential)
    configure_lsh_cache_size(64);
    for &dim in &[1usize, 3, 16] { for &h in &[1usize, 8, 62, 70] { for table in 0..3i64 {
        let v = g.vec(dim).iter().map(|x| if x.is_finite() && x.abs() < 1.0e6 { *x } else { 0.5 }).collect::<Vec<f32>>();
        let b0 = lsh_bucket(&v, table, h);
        clear_lsh_cache();
        let b1 = lsh_bucket(&v, table, h);
        configure_lsh_cache_size(1);
        let _ = lsh_bucket(&v, table + 7, h); let _ = lsh_bucket(&[1.0, 2.0], table + 9, 5);
        let b2 = lsh_bucket(&v, table, h);
        configure_lsh_cache_size(64);
        let b3 = lsh_bucket(&v, table, h);
        cases += 1;
        if !(b0 == b1 && b1 == b2 && b2 == b3) { vw_report(format!("lsh_bucket(dim {dim}, table {table}, {h} hyperplanes) changed with the cache state: {b0} / after clear {b1} / after eviction {b2} / after resize {b3}")); }
    } } }
    // history independence across tables / dimensions / hyperplane counts whose cache keys could collide
    // (large and negative table indices, indices congruent modulo 2^32, dimensions and bit counts 256 apart)
    let tables: [i64; 8] = [0, 5, 5 + (1i64 << 32), 1i64 << 40, -1, 4_294_967_295, i64::MIN, i64::MAX];
    let dims: [usize; 3] = [3, 259, 16];
    let hs: [usize; 3] = [8, 32, 61];
    let mut configs: Vec<(Vec<f32>, i64, usize)> = Vec::new();
    for &t in &tables { configs.push(((0..16).map(|i| (i as f32) - 7.5).collect(), t, 32)); }
    for &d in &dims { configs.push(((0..d).map(|i| ((i * 7 % 13) as f32) - 6.0).collect(), 5, 8)); }
    for &h in &hs { configs.push(((0..16).map(|i| (i as f32) - 7.5).collect(), 9, h)); }
    for (va, ta, ha) in &configs { for (vb, tb, hb) in &configs {
        if (ta, ha, va.len()) == (tb, hb, vb.len()) { continue; }
        clear_lsh_cache();
        let fresh = lsh_bucket(vb, *tb, *hb);
        clear_lsh_cache();
        let _ = lsh_bucket(va, *ta, *ha);
        let after = lsh_bucket(vb, *tb, *hb);
        cases += 1;
        if fresh != after { vw_report(format!("lsh_bucket(dim {}, table {}, {} hyperplanes) = {} on a fresh cache but {} after computing lsh_bucket(dim {}, table {}, {} hyperplanes)", vb.len(), tb, hb, fresh, after, va.len(), ta, ha)); }
    } }
    vw_finish(cases);
}
