// shared by standin_histories_clean / standin_histories_dirty (C11): run a history of inserts/deletes over the
// tuples a=(1,1), b=(2,2) through the public StorageEngine API, save, drop the engine, reopen the same data
// directory and compare the relation served after the restart with the relation served before it.
use crate::Config;

#[derive(Clone, Copy, Debug, PartialEq)]
enum Op { InsA, InsB, DelA, DelB, Save, Compact, Restart }
const OPS: [Op; 7] = [Op::InsA, Op::InsB, Op::DelA, Op::DelB, Op::Save, Op::Compact, Op::Restart];

fn cfg(dir: std::path::PathBuf) -> Config {
    let mut c = Config::default();
    c.storage.data_dir = dir;
    c
}
/// -> (served before the final restart, served after it); `final_save`: save before the final restart or rely
/// on the write-ahead log alone.  Save / Compact / Restart may also occur inside the history.
fn run_history_with(h: &[Op], final_save: bool) -> (Vec<(i32, i32)>, Vec<(i32, i32)>) {
    let temp = tempfile::TempDir::new().unwrap();
    let q = "result(X,Y) <- edge(X,Y)";
    let before = {
        let mut s = StorageEngine::new(cfg(temp.path().to_path_buf())).unwrap();
        s.create_knowledge_graph("kg").unwrap();
        s.use_knowledge_graph("kg").unwrap();
        for op in h {
            match op {
                Op::InsA => { s.insert("edge", vec![(1, 1)]).unwrap(); }
                Op::InsB => { s.insert("edge", vec![(2, 2)]).unwrap(); }
                Op::DelA => { s.delete("edge", vec![(1, 1)]).unwrap(); }
                Op::DelB => { s.delete("edge", vec![(2, 2)]).unwrap(); }
                Op::Save => { s.save_knowledge_graph("kg").unwrap(); }
                Op::Compact => { s.compact_all().unwrap(); }
                Op::Restart => {
                    drop(s);
                    s = StorageEngine::new(cfg(temp.path().to_path_buf())).unwrap();
                    s.use_knowledge_graph("kg").unwrap();
                }
            }
        }
        let mut live = s.execute_query(q).unwrap_or_default();
        live.sort_unstable();
        if final_save { s.save_knowledge_graph("kg").unwrap(); }
        live
    };
    let after = {
        let mut s = StorageEngine::new(cfg(temp.path().to_path_buf())).unwrap();
        s.use_knowledge_graph("kg").unwrap();
        let mut r = s.execute_query(q).unwrap_or_default();
        r.sort_unstable();
        r
    };
    (before, after)
}
fn run_history(h: &[Op]) -> (Vec<(i32, i32)>, Vec<(i32, i32)>) { run_history_with(h, true) }
/// a history is "clean" if no insert targets a tuple that is present and no delete targets an absent one
fn is_clean(h: &[Op]) -> bool {
    let (mut a, mut b) = (false, false);
    for op in h {
        match op {
            Op::InsA => { if a { return false; } a = true; }
            Op::InsB => { if b { return false; } b = true; }
            Op::DelA => { if !a { return false; } a = false; }
            Op::DelB => { if !b { return false; } b = false; }
            Op::Save | Op::Compact | Op::Restart => {}
        }
    }
    true
}
fn histories(max_len: usize) -> Vec<Vec<Op>> {
    let mut out = Vec::new();
    for len in 1..=max_len {
        for code in 0..OPS.len().pow(len as u32) {
            let mut c = code; let mut h = Vec::new();
            for _ in 0..len { h.push(OPS[c % OPS.len()]); c /= OPS.len(); }
            out.push(h);
        }
    }
    out
}
