// C31 — BOUNDED stand-in for payloads longer than the Kani bounds (strings / vectors of length <= 1–2 there):
// a pool of representative values of every kind, including long vectors and strings that differ only late,
// every NaN/zero flavour, extreme integers; all pairs (Equal <=> ==, antisymmetry, == => equal DefaultHasher
// hash, partial_cmp agrees) and all triples (transitivity); the same laws for tuples built from pool pairs.
use super::*;
use std::collections::hash_map::DefaultHasher;
include!("/verif/witness/common.rs");

fn h<T: Hash>(x: &T) -> u64 { let mut s = DefaultHasher::new(); x.hash(&mut s); s.finish() }
fn pool() -> Vec<Value> {
    let mut v = vec![
        Value::Null, Value::Bool(false), Value::Bool(true),
        Value::Int32(i32::MIN), Value::Int32(-1), Value::Int32(0), Value::Int32(7),
        Value::Int64(i64::MIN), Value::Int64(0), Value::Int64(7), Value::Int64(i64::MAX),
        Value::Float64(0.0), Value::Float64(-0.0), Value::Float64(1.5), Value::Float64(f64::INFINITY), Value::Float64(f64::NEG_INFINITY),
        Value::Float64(f64::NAN), Value::Float64(-f64::NAN), Value::Float64(f64::from_bits(0x7ff8_0000_0000_0001)),
        Value::Timestamp(0), Value::Timestamp(7), Value::Timestamp(-1),
        Value::string(""), Value::string("a"), Value::string("ab"), Value::string("b"), Value::string("é"), Value::string("a\u{0}"),
    ];
    let long_s: String = std::iter::repeat('x').take(40).collect();
    v.push(Value::string(&long_s)); v.push(Value::string(&format!("{long_s}y"))); v.push(Value::string(&format!("{}z", &long_s[..39])));
    for len in [0usize, 1, 2, 3, 8, 9, 16, 17, 33] {
        let base: Vec<f32> = (0..len).map(|i| i as f32).collect();
        v.push(Value::vector(base.clone()));
        if len > 0 {
            let mut last = base.clone(); last[len - 1] = -1.0; v.push(Value::vector(last));
            let mut nan = base.clone(); nan[len - 1] = f32::NAN; v.push(Value::vector(nan));
            let mut z = base.clone(); z[0] = -0.0; v.push(Value::vector(z));
        }
        let b8: Vec<i8> = (0..len).map(|i| i as i8).collect();
        v.push(Value::vector_int8(b8.clone()));
        if len > 0 { let mut l = b8.clone(); l[len - 1] = -5; v.push(Value::vector_int8(l)); }
    }
    v
}
fn le(o: Ordering) -> bool { o != Ordering::Greater }
fn laws<T: Ord + Hash + std::fmt::Debug>(xs: &[T], what: &str) -> usize {
    let mut cases = 0;
    for a in xs { for b in xs {
        cases += 1;
        let c = a.cmp(b);
        if (c == Ordering::Equal) != (a == b) { vw_found(format!("{what}: cmp({:?}, {:?}) = {:?} but == is {}", a, b, c, a == b)); }
        if b.cmp(a) != c.reverse() { vw_found(format!("{what}: cmp({:?}, {:?}) = {:?} but the reverse comparison is {:?}", a, b, c, b.cmp(a))); }
        if a == b && h(a) != h(b) { vw_found(format!("{what}: {:?} == {:?} but their hashes differ", a, b)); }
        if a.partial_cmp(b) != Some(c) { vw_found(format!("{what}: partial_cmp({:?}, {:?}) disagrees with cmp", a, b)); }
    } }
    for a in xs { for b in xs { if !le(a.cmp(b)) { continue; } for c in xs {
        cases += 1;
        if le(b.cmp(c)) && !le(a.cmp(c)) { vw_found(format!("{what}: {:?} <= {:?} <= {:?} but the first is greater than the last", a, b, c)); }
    } } }
    cases
}
#[test]
fn verif_witness() {
    let p = pool();
    let mut cases = laws(&p, "Value");
    // tuples: every pair of a small sub-pool, plus prefixes
    let sub: Vec<Value> = p.iter().step_by(5).cloned().collect();
    let mut ts = vec![Tuple::new(vec![])];
    for a in &sub { ts.push(Tuple::new(vec![a.clone()])); for b in sub.iter().step_by(2) { ts.push(Tuple::new(vec![a.clone(), b.clone()])); } }
    cases += laws(&ts, "Tuple");
    vw_none(cases);
}
