// C17 (sequential part only) — BOUNDED stand-in.  The property's interleaving clause (an insert racing a drop and
// re-create) needs threads and is NOT covered; startup discovery and shard deletion are std::fs call sequences outside
// both verifiers.
//
// One real StorageEngine, two knowledge graphs, relations `b_c`, `c`; every history is run twice: with the graph names
// `a`, `ab`, and with the adversarially similar names `a`, `a_b` (the shards `a:b_c` and `a_b:c` differ only in where the
// separator stands).  Every history of length <= 3 (thorough:
// + every 5th of length 4) over 11 steps — create a / a_b, drop a / a_b, insert into a:b_c, a_b:c, a:c, register a rule in a, save all,
// restart (drop the engine, reopen the same directory) — is compared after every step with the model
// graph -> (relation -> set of tuples, rule names):
//   * the non-empty graphs listed by list_knowledge_graphs() are the model's non-empty graphs,
//   * every relation of every graph holds exactly the model's tuples (a step on one graph never changes another),
//   * a dropped graph's data does not reappear — not after a restart, not in a re-created graph of the same name.
use super::*;
include!("/verif/witness/common.rs");

#[derive(Clone, Copy, Debug, PartialEq)]
enum KOp { CreateA, CreateB, DropA, DropB, InsA1, InsB1, InsA2, RuleA, Save, Restart, InsB2 }
const KOPS: [KOp; 11] = [KOp::CreateA, KOp::CreateB, KOp::DropA, KOp::DropB, KOp::InsA1, KOp::InsB1, KOp::InsA2, KOp::RuleA, KOp::Save, KOp::Restart, KOp::InsB2];
const KA: &str = "a";

fn vk_cfg(dir: std::path::PathBuf) -> crate::Config {
    let mut c = crate::Config::default();
    c.storage.data_dir = dir;
    c.storage.auto_create_knowledge_graphs = false;
    c
}
fn vk_t(a: i64, b: i64) -> Tuple { Tuple::new(vec![crate::value::Value::Int64(a), crate::value::Value::Int64(b)]) }

type VkModel = std::collections::BTreeMap<String, (std::collections::BTreeMap<String, std::collections::BTreeSet<(i64, i64)>>, std::collections::BTreeSet<String>)>;

fn vk_observe(s: &StorageEngine) -> String {
    let mut kgs: Vec<String> = s.list_knowledge_graphs().into_iter().filter(|k| k != "default").collect();
    kgs.sort();
    let mut out = Vec::new();
    for kg in &kgs {
        let mut rels = Vec::new();
        for rel in ["b_c", "c"] {
            let rows = s.execute_query_with_rules_tuples_on(kg, &format!("result(X, Y) <- {rel}(X, Y)")).unwrap_or_default();
            let mut r: Vec<(i64, i64)> = rows.iter().filter_map(|t| Some((t.values().first()?.as_i64()?, t.values().get(1)?.as_i64()?))).collect();
            r.sort(); r.dedup();
            if !r.is_empty() { rels.push(format!("{rel}={r:?}")); }
        }
        let mut rules = s.list_rules_in(kg).unwrap_or_default();
        rules.sort();
        // a graph without tuples and rules is not compared: whether an EMPTY graph survives a restart is not part of C17
        if rels.is_empty() && rules.is_empty() { continue; }
        out.push(format!("{kg}{{{} rules={rules:?}}}", rels.join(" ")));
    }
    out.join(" ")
}
fn vk_expect(m: &VkModel) -> String {
    let mut out = Vec::new();
    for (kg, (rels, rules)) in m {
        let mut rs = Vec::new();
        for rel in ["b_c", "c"] {
            if let Some(set) = rels.get(rel) { if !set.is_empty() { rs.push(format!("{rel}={:?}", set.iter().collect::<Vec<_>>())); } }
        }
        if rs.is_empty() && rules.is_empty() { continue; }
        out.push(format!("{kg}{{{} rules={:?}}}", rs.join(" "), rules.iter().collect::<Vec<_>>()));
    }
    out.join(" ")
}

fn vk_run(h: &[KOp], kb: &str) -> Option<String> {
    #[allow(non_snake_case)] let KB = kb;
    let temp = tempfile::TempDir::new().unwrap();
    let mut s = StorageEngine::new(vk_cfg(temp.path().to_path_buf())).unwrap();
    let mut m: VkModel = Default::default();
    for (i, op) in h.iter().enumerate() {
        let ctx = format!("history {:?} after step {i} {:?}", h, op);
        let ins = |s: &StorageEngine, m: &mut VkModel, kg: &str, rel: &str, t: (i64, i64)| -> Option<String> {
            let r = s.insert_tuples_into(kg, rel, vec![vk_t(t.0, t.1)]);
            match (m.get_mut(kg), r.is_ok()) {
                (Some(g), true) => { g.0.entry(rel.to_string()).or_default().insert(t); None }
                (None, false) => None,
                (Some(_), false) => Some(format!("insert into existing graph `{kg}` failed: {:?}", r.err())),
                (None, true) => Some(format!("insert into the non-existent graph `{kg}` succeeded")),
            }
        };
        let problem = match *op {
            KOp::CreateA | KOp::CreateB => {
                let kg = if *op == KOp::CreateA { KA } else { KB };
                let r = s.create_knowledge_graph(kg);
                match (m.contains_key(kg), r.is_ok()) {
                    (false, true) => { m.insert(kg.to_string(), Default::default()); None }
                    (true, false) => None,
                    (false, false) => Some(format!("creating the absent graph `{kg}` failed: {:?}", r.err())),
                    (true, true) => Some(format!("creating the existing graph `{kg}` succeeded")),
                }
            }
            KOp::DropA | KOp::DropB => {
                let kg = if *op == KOp::DropA { KA } else { KB };
                let r = s.drop_knowledge_graph(kg);
                match (m.contains_key(kg), r.is_ok()) {
                    (true, true) => { m.remove(kg); None }
                    (false, false) => None,
                    (true, false) => Some(format!("dropping the existing graph `{kg}` failed: {:?}", r.err())),
                    (false, true) => Some(format!("dropping the absent graph `{kg}` succeeded")),
                }
            }
            KOp::InsA1 => ins(&s, &mut m, KA, "b_c", (1, 1)),
            KOp::InsB1 => ins(&s, &mut m, KB, "c", (2, 2)),
            KOp::InsA2 => ins(&s, &mut m, KA, "c", (3, 3)),
            KOp::InsB2 => ins(&s, &mut m, KB, "b_c", (4, 4)),
            KOp::RuleA => {
                let rd = crate::statement::parse_rule_definition("dr(X, Y) <- c(X, Y)").unwrap();
                let r = s.register_rule_in(KA, &rd);
                match (m.get_mut(KA), r.is_ok()) {
                    (Some(g), true) => { g.1.insert("dr".to_string()); None }
                    (None, false) => None,
                    (Some(_), false) => Some(format!("registering a rule in the existing graph `a` failed: {:?}", r.err())),
                    (None, true) => Some("registering a rule in the non-existent graph `a` succeeded".to_string()),
                }
            }
            KOp::Save => s.save_all().err().map(|e| format!("save_all failed: {e:?}")),
            KOp::Restart => {
                drop(s);
                s = match StorageEngine::new(vk_cfg(temp.path().to_path_buf())) { Ok(s) => s, Err(e) => return Some(format!("{ctx}: the store does not reopen: {e:?}")) };
                None
            }
        };
        if let Some(p) = problem { return Some(format!("{ctx}: {p}")); }
        let (got, want) = (vk_observe(&s), vk_expect(&m));
        if got != want { return Some(format!("{ctx}: the engine serves [{got}], the history implies [{want}]")); }
    }
    None
}

#[test]
fn verif_witness() {
    let max_len = if vw_thorough() { 4 } else { 3 };
    let mut hs: Vec<Vec<KOp>> = Vec::new();
    fn rec(cur: &mut Vec<KOp>, max: usize, out: &mut Vec<Vec<KOp>>) {
        if !cur.is_empty() { out.push(cur.clone()); }
        if cur.len() == max { return; }
        for op in KOPS { cur.push(op); rec(cur, max, out); cur.pop(); }
    }
    // every history starts by creating both graphs (otherwise most steps are refused): prefix + enumerated suffix
    rec(&mut Vec::new(), max_len, &mut hs);
    let mut cases = 0usize;
    let mut seen: std::collections::BTreeSet<String> = Default::default();
    for (hi, suffix) in hs.iter().enumerate() {
        if suffix.len() == 4 && hi % 5 != 0 { continue; }   // thorough: every 5th history of length 4
        let mut h = vec![KOp::CreateA, KOp::CreateB];
        h.extend_from_slice(suffix);
        h.push(KOp::Restart);   // and every history ends with a restart: nothing reappears, nothing is lost
        cases += 1;
        // the same history with graph names whose shard names cannot be confused (`a`, `ab`) ...
        let plain = vk_run(&h, "ab");
        if let Some(f) = &plain {
            let key: String = f.split(": ").skip(1).collect::<Vec<_>>().join(": ").chars().filter(|c| !c.is_ascii_digit()).take(60).collect();
            if seen.insert(key) { vw_report(format!("graphs `a`, `ab`: {f}")); }
        }
        // ... and with the adversarial pair (`a`, `a_b`): a failure that only occurs here is tagged as such
        if let Some(f) = vk_run(&h, "a_b") {
            let tag = if plain.is_none() { " [only with the colliding shard names a:b_c / a_b:c: the same history passes with graphs `a`, `ab`]" } else { "" };
            let key: String = f.split(": ").skip(1).collect::<Vec<_>>().join(": ").chars().filter(|c| !c.is_ascii_digit()).take(60).collect();
            if seen.insert(format!("{key}{tag}")) { vw_report(format!("graphs `a`, `a_b`: {f}{tag}")); }
        }
        if seen.len() >= 12 { break; }
    }
    vw_finish(cases);
}
