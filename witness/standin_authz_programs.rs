// C27 — BOUNDED stand-in; the shared driver and its description are in authz_common.rs (C27 part).
use super::*;
include!("/verif/witness/common.rs");
include!("/verif/witness/authz_common.rs");

#[tokio::test]
async fn verif_witness() { va_run(true, false).await; }
