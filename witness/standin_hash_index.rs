// C36, hash-index clause — BOUNDED stand-in (HashMap entry API + iterator position are outside Verus, CBMC does
// not finish on HashIndex): every history of <= 5 operations (insert / remove / rebuild) over 4 two-column tuples
// with key column 0; after every step get, get_with_bloom and probe must return exactly the stored tuples whose
// key equals the probe key (as a multiset), for every key.
use super::*;
use crate::value::{Tuple, Value};
include!("/verif/witness/common.rs");

fn t(k: i64, v: i64) -> Tuple { Tuple::new(vec![Value::Int64(k), Value::Int64(v)]) }
fn key(k: i64) -> Tuple { Tuple::new(vec![Value::Int64(k)]) }

#[test]
fn verif_witness() {
    let pool = [t(1, 10), t(1, 11), t(2, 20), t(3, 30)];
    // ops: 0..3 insert pool[i]; 4..7 remove pool[i-4]; 8 rebuild from the model
    let nops = 9usize;
    let mut cases = 0usize;
    for len in 1..=(if vw_thorough() { 6usize } else { 5 }) {
        for code in 0..nops.pow(len as u32) {
            let mut c = code;
            let mut idx = HashIndex::new(JoinKeySpec::new("r", vec![0]), 4);
            let mut model: Vec<Tuple> = Vec::new();
            let mut hist = Vec::new();
            for _ in 0..len {
                let op = c % nops; c /= nops; hist.push(op);
                if op < 4 { idx.insert(pool[op].clone()); model.push(pool[op].clone()); }
                else if op < 8 {
                    let x = &pool[op - 4];
                    let removed = idx.remove(x);
                    let pos = model.iter().position(|m| m == x);
                    if removed != pos.is_some() { vw_found(format!("history {:?} (0-3 insert, 4-7 remove, 8 rebuild of tuples {:?}): remove reported {} but the tuple was {}present", hist, pool, removed, if pos.is_some() { "" } else { "not " })); }
                    if let Some(p) = pos { model.remove(p); }
                } else { idx.build_from_tuples(model.clone()); }
                cases += 1;
                for k in 0..=4i64 {
                    let mut want: Vec<Tuple> = model.iter().filter(|m| m.get(0) == Some(&Value::Int64(k))).cloned().collect();
                    want.sort();
                    for (name, got) in [("get", idx.get(&key(k)).cloned().unwrap_or_default()),
                                        ("get_with_bloom", idx.get_with_bloom(&key(k)).cloned().unwrap_or_default()),
                                        ("probe", idx.probe(&key(k)).cloned().collect::<Vec<_>>())] {
                        let mut g = got; g.sort();
                        if g != want { vw_found(format!("history {:?} (0-3 insert, 4-7 remove, 8 rebuild over tuples (1,10),(1,11),(2,20),(3,30)): {}(key {}) returned {} tuple(s), the stored tuples with that key are {}", hist, name, k, g.len(), want.len())); }
                    }
                }
                if idx.len() != model.len() { vw_found(format!("history {:?}: len() = {} but {} tuples are stored", hist, idx.len(), model.len())); }
            }
        }
    }
    // growth past the size the index was created for (sizing thresholds, filter rebuilds): 450 distinct keys with
    // duplicates, removals and a rebuild interleaved; after every step every key inserted so far is looked up
    for &expected in &[0usize, 1, 4, 100, 128] {
        let mut idx = HashIndex::new(JoinKeySpec::new("r", vec![0]), expected);
        let mut model: Vec<Tuple> = Vec::new();
        for i in 0..450i64 {
            idx.insert(t(i, i * 2)); model.push(t(i, i * 2));
            if i % 7 == 3 { idx.insert(t(i, -1)); model.push(t(i, -1)); }
            if i % 11 == 5 { let x = t(i - 2, (i - 2) * 2); if let Some(p) = model.iter().position(|m| *m == x) { model.remove(p); } idx.remove(&x); }
            if i == 300 { idx.build_from_tuples(model.clone()); }
            cases += 1;
            let lo = if i > 140 && i % 50 != 0 { i - 140 } else { 0 };
            for k in lo..=i + 1 {
                let mut want: Vec<Tuple> = model.iter().filter(|m| m.get(0) == Some(&Value::Int64(k))).cloned().collect();
                want.sort();
                for (name, got) in [("get", idx.get(&key(k)).cloned().unwrap_or_default()),
                                    ("get_with_bloom", idx.get_with_bloom(&key(k)).cloned().unwrap_or_default()),
                                    ("probe", idx.probe(&key(k)).cloned().collect::<Vec<_>>())] {
                    let mut g = got; g.sort();
                    if g != want { vw_found(format!("index created for {} keys, after inserting keys 0..={} (with duplicates, removals, one rebuild at 300): {}(key {}) returned {} tuple(s), {} are stored", expected, i, name, k, g.len(), want.len())); }
                }
            }
        }
    }
    vw_none(cases);
}
