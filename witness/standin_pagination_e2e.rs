// C35, composition at the call sites — BOUNDED stand-in (the async request handler is outside both verifiers):
// through Handler::query_program, a 10-row relation with distinct scores; every combination of sort annotation
// {none, :asc, :desc} x limit {1,3,4,10,15} x offset {absent,0,2,3,9,12}: total_count is the full answer size and
// the page is sorted_full[offset .. offset+limit] (for unsorted queries: that many rows, all from the answer).
use super::*;
include!("/verif/witness/common.rs");

#[tokio::test]
async fn verif_witness() {
    let tmp = tempfile::tempdir().unwrap();
    let mut config = Config::default();
    config.storage.data_dir = tmp.path().to_path_buf();
    config.storage.auto_create_knowledge_graphs = true;
    let handler = Handler::from_config(config).expect("handler");
    let kg = || Some("verif_kg".to_string());
    handler.query_program(kg(), "+scores[(1, 50), (2, 90), (3, 10), (4, 70), (5, 30), (6, 100), (7, 20), (8, 80), (9, 40), (10, 60)]".to_string()).await.expect("insert");
    let full = handler.query_program(kg(), "?scores(X, S)".to_string()).await.expect("full query");
    let n = full.rows.len();
    if n != 10 || full.total_count != 10 { vw_found(format!("full answer has {} rows, total_count {}", n, full.total_count)); }
    let mut cases = 0usize;
    for sort in ["", ":asc", ":desc"] {
        let sorted = match sort { ":asc" => sort_rows(full.rows.clone(), &[(1, SortDirection::Asc)]), ":desc" => sort_rows(full.rows.clone(), &[(1, SortDirection::Desc)]), _ => full.rows.clone() };
        for limit in [1usize, 3, 4, 10, 15] {
            for offset in [None, Some(0usize), Some(2), Some(3), Some(9), Some(12)] {
                let q = match offset { Some(o) => format!("?scores(X, S{sort}), limit({limit}, {o})"), None => format!("?scores(X, S{sort}), limit({limit})") };
                let r = match handler.query_program(kg(), q.clone()).await { Ok(r) => r, Err(e) => { vw_report(format!("query `{q}` failed: {e:?}")); continue; } };
                cases += 1;
                let s = offset.unwrap_or(0).min(n); let e = (s + limit).min(n);
                if r.total_count != n { vw_report(format!("query `{q}`: total_count {} but the full answer has {} rows", r.total_count, n)); }
                if sort.is_empty() {
                    if r.rows.len() != e - s || r.rows.iter().any(|x| !full.rows.contains(x)) { vw_report(format!("query `{q}`: {} rows returned, the slice [{s}..{e}) has {}", r.rows.len(), e - s)); }
                } else if r.rows != sorted[s..e].to_vec() {
                    vw_report(format!("query `{q}`: returned scores {:?}, the sorted answer's slice [{s}..{e}) is {:?}",
                        r.rows.iter().map(|x| x.values[1].clone()).collect::<Vec<_>>(), sorted[s..e].iter().map(|x| x.values[1].clone()).collect::<Vec<_>>()));
                }
            }
        }
    }
    vw_finish(cases);
}
