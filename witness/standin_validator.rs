// C33, enforcement clause — BOUNDED stand-in for batches beyond CBMC's reach (2 tuples x 1 column take 8 min):
// batches of 1..1000 tuples over a 3-column schema (int, string, vector(2)) with at most one bad tuple (wrong type
// in any column, wrong vector dimension, or wrong arity) at the first / middle / last position: rejected iff a bad
// tuple is present.
use super::*;
use crate::schema::{ColumnSchema, SchemaType};
use crate::value::Value;
include!("/verif/witness/common.rs");

fn good(i: usize) -> Tuple { Tuple::new(vec![Value::Int64(i as i64), Value::string("s"), Value::vector(vec![1.0, 2.0])]) }
fn bad(kind: usize) -> (Tuple, &'static str) {
    match kind {
        0 => (Tuple::new(vec![Value::string("x"), Value::string("s"), Value::vector(vec![1.0, 2.0])]), "a string in the int column"),
        1 => (Tuple::new(vec![Value::Int64(1), Value::Int64(2), Value::vector(vec![1.0, 2.0])]), "an int in the string column"),
        2 => (Tuple::new(vec![Value::Int64(1), Value::string("s"), Value::vector(vec![1.0, 2.0, 3.0])]), "a vector of dimension 3 in a vector(2) column"),
        3 => (Tuple::new(vec![Value::Int64(1), Value::string("s"), Value::vector_int8(vec![1])]), "an int8 vector of dimension 1 in a vector(2) column"),
        4 => (Tuple::new(vec![Value::Int64(1), Value::string("s")]), "a tuple with 2 of 3 columns"),
        5 => (Tuple::new(vec![Value::Int64(1), Value::string("s"), Value::vector(vec![1.0, 2.0]), Value::Null]), "a tuple with 4 columns"),
        6 => (Tuple::new(vec![Value::Null, Value::string("s"), Value::vector(vec![1.0, 2.0])]), "Null in the int column"),
        _ => (Tuple::new(vec![Value::Float64(1.5), Value::string("s"), Value::vector(vec![1.0, 2.0])]), "a float in the int column"),
    }
}
#[test]
fn verif_witness() {
    let schema = RelationSchema::new("r")
        .with_column(ColumnSchema::new("a", SchemaType::Int))
        .with_column(ColumnSchema::new("b", SchemaType::String))
        .with_column(ColumnSchema::new("c", SchemaType::Vector { dim: Some(2) }));
    let mut cases = 0usize;
    for &n in &[1usize, 2, 3, 4, 7, 8, 9, 31, 32, 33, 64, 65, 100, 255, 256, 257, 1000] {
        let all_good: Vec<Tuple> = (0..n).map(good).collect();
        let mut e = ValidationEngine::new();
        cases += 1;
        if e.validate_batch(&schema, &all_good).is_err() { vw_found(format!("a batch of {n} conforming tuples was rejected")); }
        for kind in 0..8 {
            let mut ps = vec![0, n / 2, n - 1]; ps.dedup();
            for p in ps {
                let (b, what) = bad(kind);
                let mut batch = all_good.clone(); batch[p] = b;
                cases += 1;
                if ValidationEngine::new().validate_batch(&schema, &batch).is_ok() {
                    vw_found(format!("a batch of {n} tuples with {what} at position {p} was accepted"));
                }
            }
        }
    }
    vw_none(cases);
}
