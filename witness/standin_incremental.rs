// C18 — BOUNDED stand-in (DerivedRelationsManager / publish_snapshot are state machines over
// HashMap<String, HashSet<String>> behind a worker thread: CBMC gave no result on the smallest instance, Verus has no
// specification for the thread/channel code).
//
// Two StorageEngines get the same history through the public API; in one the knowledge graph's incremental
// maintenance is enabled (KnowledgeGraph::enable_incremental, what creating an index does) at a chosen point of the
// history, in the other never.  After EVERY step both are asked for d1, d2, d3 and d4 (rules over base facts, a rule over
// a derived relation and a base relation, a recursive rule, a rule over derived relations only) through execute_query_with_rules_tuples_on and must agree; the engine
// without incremental maintenance is the "fresh evaluation of the current rules over the current facts".
// Histories: every sequence of length <= 2, every 3rd of length 3 (thorough: all of length <= 3, every 20th of length 4) over 11 steps (base inserts/deletes on two relations, rule
// registration incl. a second clause and a derived-on-derived rule, clause removal, rule drop), with incremental
// maintenance enabled before step 0, 1 or 2, from an empty knowledge graph or one whose `edge` relation already holds
// two tuples (alternating; both for histories that start with a rule over base facts followed by a rule over it).
use super::*;
include!("/verif/witness/common.rs");

#[derive(Clone, Copy, Debug, PartialEq)]
enum VOp { InsE1, InsE2, DelE1, InsF, RegD1, RegD1b, RegD2, RegD3, RegD4, RmClauseD1, DropD1 }
const VOPS: [VOp; 11] = [VOp::InsE1, VOp::InsE2, VOp::DelE1, VOp::InsF, VOp::RegD1, VOp::RegD1b, VOp::RegD2, VOp::RegD3, VOp::RegD4, VOp::RmClauseD1, VOp::DropD1];

fn vi_cfg(dir: std::path::PathBuf) -> crate::Config {
    let mut c = crate::Config::default();
    c.storage.data_dir = dir;
    c
}
fn vi_rule(text: &str) -> RuleDef { crate::statement::parse_rule_definition(text).expect("rule definition parses") }
fn vi_t(a: i64, b: i64) -> Tuple { Tuple::new(vec![crate::value::Value::Int64(a), crate::value::Value::Int64(b)]) }

fn vi_apply(s: &StorageEngine, op: VOp) -> bool {
    match op {
        VOp::InsE1 => s.insert_tuples_into("kg", "edge", vec![vi_t(1, 2), vi_t(2, 3)]).is_ok(),
        VOp::InsE2 => s.insert_tuples_into("kg", "edge", vec![vi_t(3, 4)]).is_ok(),
        VOp::DelE1 => s.delete_tuples_from("kg", "edge", vec![vi_t(2, 3)]).is_ok(),
        VOp::InsF => s.insert_tuples_into("kg", "flag", vec![vi_t(2, 0), vi_t(4, 0)]).is_ok(),
        VOp::RegD1 => s.register_rule_in("kg", &vi_rule("d1(X, Y) <- edge(X, Y)")).is_ok(),
        VOp::RegD1b => s.register_rule_in("kg", &vi_rule("d1(X, Y) <- edge(Y, X), flag(X, Z)")).is_ok(),
        VOp::RegD2 => s.register_rule_in("kg", &vi_rule("d2(X, Z) <- d1(X, Y), edge(Y, Z)")).is_ok(),
        VOp::RegD3 => s.register_rule_in("kg", &vi_rule("d3(X, Y) <- edge(X, Y)")).is_ok()
            && s.register_rule_in("kg", &vi_rule("d3(X, Z) <- d3(X, Y), edge(Y, Z)")).is_ok(),
        VOp::RegD4 => s.register_rule_in("kg", &vi_rule("d4(X, Y) <- d1(X, Y)")).is_ok(),   // reads derived relations only
        VOp::RmClauseD1 => s.remove_rule_clause_in("kg", "d1", 0).is_ok(),
        VOp::DropD1 => s.drop_rule_in("kg", "d1").is_ok(),
    }
}

fn vi_answers(s: &StorageEngine) -> String {
    let mut out = Vec::new();
    for rel in ["d1", "d2", "d3", "d4"] {
        let q = format!("result(X, Y) <- {rel}(X, Y)");
        match s.execute_query_with_rules_tuples_on("kg", &q) {
            Ok(mut rows) => {
                let mut r: Vec<String> = rows.drain(..).map(|t| format!("{:?}", t.values())).collect();
                r.sort(); r.dedup();
                out.push(format!("{rel}={{{}}}", r.join(",")));
            }
            Err(_) => out.push(format!("{rel}=error")),
        }
    }
    out.join(" ")
}

fn vi_run(h: &[VOp], enable_at: usize, prepopulated: bool) -> Option<String> {
    let (ta, tb) = (tempfile::TempDir::new().unwrap(), tempfile::TempDir::new().unwrap());
    let mut a = StorageEngine::new(vi_cfg(ta.path().to_path_buf())).unwrap();
    let mut b = StorageEngine::new(vi_cfg(tb.path().to_path_buf())).unwrap();
    for s in [&mut a, &mut b] {
        s.create_knowledge_graph("kg").unwrap(); s.use_knowledge_graph("kg").unwrap();
        if prepopulated { s.insert_tuples_into("kg", "edge", vec![vi_t(1, 2), vi_t(2, 3)]).unwrap(); }
    }
    for (i, op) in h.iter().enumerate() {
        if i == enable_at {
            let kg = a.knowledge_graphs.get("kg").unwrap();
            kg.write().enable_incremental().expect("enable_incremental");
        }
        let (ra, rb) = (vi_apply(&a, *op), vi_apply(&b, *op));
        if ra != rb {
            return Some(format!("{}history {:?} (incremental maintenance enabled before step {enable_at}): step {i} {:?} {} with incremental maintenance but {} without",
                if prepopulated { "start edge={(1,2),(2,3)}, " } else { "" }, h, op, if ra { "succeeds" } else { "fails" }, if rb { "succeeds" } else { "fails" }));
        }
        let (qa, qb) = (vi_answers(&a), vi_answers(&b));
        if qa != qb {
            return Some(format!("{}history {:?} (incremental maintenance enabled before step {enable_at}): after step {i} {:?} the answers are [{qa}] with incremental maintenance, [{qb}] from a fresh evaluation", if prepopulated { "start edge={(1,2),(2,3)}, " } else { "" }, h, op));
        }
    }
    None
}

#[test]
fn verif_witness() {
    let max_len = if vw_thorough() { 4 } else { 3 };
    let mut hs: Vec<Vec<VOp>> = Vec::new();
    fn rec(cur: &mut Vec<VOp>, max: usize, out: &mut Vec<Vec<VOp>>) {
        if !cur.is_empty() { out.push(cur.clone()); }
        if cur.len() == max { return; }
        for op in VOPS { cur.push(op); rec(cur, max, out); cur.pop(); }
    }
    rec(&mut Vec::new(), max_len, &mut hs);
    // a history is informative only if it registers a rule; keep those (and every 7th of the rest as a control).
    // quick: every history of length <= 2, every 3rd of length 3; thorough: all of length <= 3, every 20th of length 4
    let thorough = vw_thorough();
    let hs: Vec<Vec<VOp>> = hs.into_iter().enumerate()
        .filter(|(i, h)| h.iter().any(|o| matches!(o, VOp::RegD1 | VOp::RegD1b | VOp::RegD2 | VOp::RegD3 | VOp::RegD4)) || i % 7 == 0)
        // always kept: a rule over base facts, then a rule over that derived relation, then any third step
        .filter(|(i, h)| match h.len() { 0..=2 => true,
            3 => thorough || i % 3 == 0 || (matches!(h[0], VOp::RegD1 | VOp::RegD1b) && matches!(h[1], VOp::RegD2 | VOp::RegD4)),
            _ => i % 20 == 0 || (matches!(h[0], VOp::RegD1) && matches!(h[1], VOp::RegD4) && i % 3 == 0) })
        .map(|(_, h)| h).collect();
    let mut cases = 0usize;
    let mut reported = 0usize;
    for (hi, h) in hs.iter().enumerate() {
        // length-3+ histories: one enabling point each (rotating); shorter ones: all
        let points: Vec<usize> = if h.len() >= 3 { vec![hi % 3] } else { (0..h.len()).collect() };
        for at in points {
            // two starting contents: empty, and base facts already present (a materialisation made at registration
            // time is then non-empty); alternate, and run both for the derived-on-derived triples
            let dd = h.len() >= 2 && matches!(h[0], VOp::RegD1 | VOp::RegD1b) && matches!(h[1], VOp::RegD2 | VOp::RegD4);
            for pre in [false, true] {
                if !dd && pre != (hi % 2 == 1) { continue; }
                cases += 1;
                if let Some(f) = vi_run(h, at, pre) { vw_report(f); reported += 1; }
            }
        }
        if reported >= 25 { break; }
    }
    vw_finish(cases);
}
