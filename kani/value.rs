// C31 — Value / Tuple: Eq, Ord, Hash laws.  Injected as a child module of src/value/mod.rs
// (`use super::*` reaches the real impls).  Obligation list: see //@harness lines (parsed by the driver).
//
// Reduction (DESIGN §3.4): the order on Value is the ordinal sum of the per-kind orders along a strict
// order on kinds.  It is a total order consistent with == iff
//   (same kind K)   E[K]  cmp(a,b)==Equal <=> a==b        A[K]  cmp(a,b)==cmp(b,a).reverse()
//                   T[K]  a<=b && b<=c => a<=c            H[K]  a==b => hash(a)==hash(b)
//   (kinds K != L)  X[K]  cmp(a,b) does not depend on the payloads, is never Equal, a != b, and
//                         cmp(b,a) is its reverse
//   (kind table)    TT    the payload-independent table is transitive (strict total order on 9 kinds)
// Meta-lemma "ordinal sum of total orders is a total order": verus/order_lemmas.spec.
use super::*;
include!("/verif/kani/common.rs");

// ---- recording hasher: Hash is observed as the byte sequence fed to the Hasher (SipHash not executed)
const HB: usize = 48;
struct Rec { buf: [u8; HB], n: usize }
impl Rec { fn new() -> Self { Rec { buf: [0; HB], n: 0 } } }
impl Hasher for Rec {
    fn finish(&self) -> u64 { 0 }
    fn write(&mut self, bytes: &[u8]) {
        let mut i = 0;
        while i < bytes.len() {
            if self.n < HB { self.buf[self.n] = bytes[i]; }
            self.n += 1;
            i += 1;
        }
    }
}
fn same_hash(a: &Value, b: &Value) -> bool {
    let mut ha = Rec::new(); a.hash(&mut ha);
    let mut hb = Rec::new(); b.hash(&mut hb);
    if ha.n != hb.n || ha.n > HB { return false; }
    let mut i = 0;
    let mut ok = true;
    while i < HB { if i < ha.n && ha.buf[i] != hb.buf[i] { ok = false; } i += 1; }
    ok
}

// ---- symbolic payloads of a CONCRETE kind and (for heap kinds) a CONCRETE length n <= 3
const NKINDS: usize = 9;
fn mk(kind: usize, n: usize) -> Value {
    match kind {
        0 => Value::Null,
        1 => Value::Bool(vk::bool()),
        2 => Value::Int32(vk::i32()),
        3 => Value::Int64(vk::i64()),
        4 => Value::Float64(vk::f64()),
        5 => Value::Timestamp(vk::i64()),
        6 => { let b = [vk::u8() & 0x7f, vk::u8() & 0x7f, vk::u8() & 0x7f];
               Value::String(Arc::from(unsafe { std::str::from_utf8_unchecked(&b[..n]) })) }
        7 => { let mut v = Vec::with_capacity(n); let mut i = 0; while i < n { v.push(vk::f32()); i += 1; } Value::Vector(Arc::new(v)) }
        _ => { let mut v = Vec::with_capacity(n); let mut i = 0; while i < n { v.push(vk::i8()); i += 1; } Value::VectorInt8(Arc::new(v)) }
    }
}
fn is_heap(kind: usize) -> bool { kind >= 6 }
fn le(o: Ordering) -> bool { o != Ordering::Greater }

fn laws_binary(a: Value, b: Value) {
    let c = a.cmp(&b);
    let e = a == b;
    let eq_ok = (c == Ordering::Equal) == e;
    let anti_ok = b.cmp(&a) == c.reverse();
    let sym_ok = (b == a) == e;
    let hash_ok = !e || same_hash(&a, &b);
    let po_ok = a.partial_cmp(&b) == Some(c);
    std::mem::forget(a); std::mem::forget(b);
    vk_check!(eq_ok, "E: cmp(a,b)==Equal <=> a==b");
    vk_check!(anti_ok, "A: cmp(b,a)==cmp(a,b).reverse()");
    vk_check!(sym_ok, "S: (a==b) == (b==a)");
    vk_check!(hash_ok, "H: a==b => hash(a)==hash(b)");
    vk_check!(po_ok, "P: partial_cmp agrees with cmp");
}
fn law_trans(a: Value, b: Value, c: Value) {
    let ab = a.cmp(&b); let bc = b.cmp(&c); let ac = a.cmp(&c);
    let ok = !(le(ab) && le(bc)) || le(ac);
    let ok2 = !(ab == Ordering::Equal && bc == Ordering::Equal) || ac == Ordering::Equal;
    std::mem::forget(a); std::mem::forget(b); std::mem::forget(c);
    vk_check!(ok, "T: a<=b && b<=c => a<=c");
    vk_check!(ok2, "T=: a~b && b~c => a~c");
}
/// same-kind binary laws; heap kinds: every pair of lengths <= maxlen
fn laws_kind(k: usize, maxlen: usize) {
    vk_reach!();
    if !is_heap(k) { laws_binary(mk(k, 0), mk(k, 0)); return; }
    let mut la = 0;
    while la <= maxlen { let mut lb = 0; while lb <= maxlen { laws_binary(mk(k, la), mk(k, lb)); lb += 1; } la += 1; }
}
fn trans_kind(k: usize, maxlen: usize) {
    vk_reach!();
    if !is_heap(k) { law_trans(mk(k, 0), mk(k, 0), mk(k, 0)); return; }
    let mut la = 0;
    while la <= maxlen { let mut lb = 0; while lb <= maxlen { let mut lc = 0; while lc <= maxlen {
        law_trans(mk(k, la), mk(k, lb), mk(k, lc)); lc += 1; } lb += 1; } la += 1; }
}
/// K vs every other kind L: payload independence, strictness, antisymmetry, inequality
fn cross(k: usize) {
    vk_reach!();
    let mut l = 0;
    while l < NKINDS {
        if l != k {
            let a = mk(k, 1); let b = mk(l, 1);
            let a0 = mk(k, 0); let b0 = mk(l, 0);   // independent second sample (other payloads, other length)
            let c = a.cmp(&b);
            let ok = c == a0.cmp(&b0) && c != Ordering::Equal && b.cmp(&a) == c.reverse() && !(a == b) && !(b == a);
            std::mem::forget(a); std::mem::forget(b); std::mem::forget(a0); std::mem::forget(b0);
            vk_check!(ok, "X: cross-kind order is payload independent, strict, antisymmetric; values of different kinds are unequal");
        }
        l += 1;
    }
}

macro_rules! kind_harnesses {
    ($k:expr, $bin:ident, $tr:ident, $x:ident) => {
        #[cfg_attr(kani, kani::proof)] #[cfg_attr(kani, kani::unwind(50))]
        pub fn $bin() { laws_kind($k, 1); }
        #[cfg_attr(kani, kani::proof)] #[cfg_attr(kani, kani::unwind(5))]
        pub fn $tr() { trans_kind($k, 1); }
        #[cfg_attr(kani, kani::proof)] #[cfg_attr(kani, kani::unwind(10))]
        pub fn $x() { cross($k); }
    };
}
//@harness laws_null      :: carries :: full :: E,A,S,H,P on Null
//@harness laws_bool      :: carries :: full :: E,A,S,H,P on every pair of Bool
//@harness laws_int32     :: carries :: full :: E,A,S,H,P on every pair of Int32
//@harness laws_int64     :: carries :: full :: E,A,S,H,P on every pair of Int64
//@harness laws_float64   :: carries :: full :: E,A,S,H,P on every pair of Float64 bit patterns (NaN, +-0.0 included)
//@harness laws_timestamp :: carries :: full :: E,A,S,H,P on every pair of Timestamp
//@harness laws_string    :: carries :: bounded(len<=1, 7-bit bytes) :: E,A,S,H,P on strings
//@harness laws_vector    :: carries :: bounded(len<=1) :: E,A,S,H,P on f32 vectors, every bit pattern
//@harness laws_vecint8   :: carries :: bounded(len<=1) :: E,A,S,H,P on i8 vectors
kind_harnesses!(0, laws_null, trans_null, cross_null);
kind_harnesses!(1, laws_bool, trans_bool, cross_bool);
kind_harnesses!(2, laws_int32, trans_int32, cross_int32);
kind_harnesses!(3, laws_int64, trans_int64, cross_int64);
kind_harnesses!(4, laws_float64, trans_float64, cross_float64);
kind_harnesses!(5, laws_timestamp, trans_timestamp, cross_timestamp);
kind_harnesses!(6, laws_string, trans_string, cross_string);
kind_harnesses!(7, laws_vector, trans_vector, cross_vector);
kind_harnesses!(8, laws_vecint8, trans_vecint8, cross_vecint8);
//@harness trans_null      :: carries :: full :: T on Null
//@harness trans_bool      :: carries :: full :: T on every triple of Bool
//@harness trans_int32     :: carries :: full :: T on every triple of Int32
//@harness trans_int64     :: carries :: full :: T on every triple of Int64
//@harness trans_float64   :: carries :: full :: T on every triple of Float64 bit patterns
//@harness trans_timestamp :: carries :: full :: T on every triple of Timestamp
//@harness trans_string    :: carries :: bounded(len<=1, 7-bit bytes) :: T on strings
//@harness trans_vector    :: carries :: bounded(len<=1) :: T on f32 vectors
//@harness trans_vecint8   :: carries :: bounded(len<=1) :: T on i8 vectors
//@harness cross_null      :: carries :: full(scalars) bounded(heap len<=1) :: X for Null vs every other kind
//@harness cross_bool      :: carries :: full(scalars) bounded(heap len<=1) :: X for Bool vs every other kind
//@harness cross_int32     :: carries :: full(scalars) bounded(heap len<=1) :: X for Int32 vs every other kind
//@harness cross_int64     :: carries :: full(scalars) bounded(heap len<=1) :: X for Int64 vs every other kind
//@harness cross_float64   :: carries :: full(scalars) bounded(heap len<=1) :: X for Float64 vs every other kind
//@harness cross_timestamp :: carries :: full(scalars) bounded(heap len<=1) :: X for Timestamp vs every other kind
//@harness cross_string    :: carries :: full(scalars) bounded(heap len<=1) :: X for String vs every other kind
//@harness cross_vector    :: carries :: full(scalars) bounded(heap len<=1) :: X for Vector vs every other kind
//@harness cross_vecint8   :: carries :: full(scalars) bounded(heap len<=1) :: X for VectorInt8 vs every other kind

//@harness kind_table :: carries :: full :: TT the kind table (one representative per kind) is a strict total order: Equal only on the diagonal, antisymmetric, transitive
#[cfg_attr(kani, kani::proof)] #[cfg_attr(kani, kani::unwind(11))]
pub fn kind_table() {
    vk_reach!();
    let reps = [mk(0, 0), Value::Bool(false), Value::Int32(0), Value::Int64(0), Value::Float64(1.0), Value::Timestamp(0),
                mk(6, 0), mk(7, 0), mk(8, 0)];
    let mut t = [[Ordering::Equal; NKINDS]; NKINDS];
    let mut i = 0;
    while i < NKINDS { let mut j = 0; while j < NKINDS { t[i][j] = reps[i].cmp(&reps[j]); j += 1; } i += 1; }
    std::mem::forget(reps);
    let mut ok = true;
    let mut i = 0;
    while i < NKINDS { let mut j = 0; while j < NKINDS { let mut k = 0;
        if (i == j) != (t[i][j] == Ordering::Equal) { ok = false; }
        if t[j][i] != t[i][j].reverse() { ok = false; }
        while k < NKINDS { if le(t[i][j]) && le(t[j][k]) && !le(t[i][k]) { ok = false; } k += 1; }
        j += 1; } i += 1; }
    vk_check!(ok, "TT: kind table is a strict total order");
}

// ---- longer payloads (thorough tier) and tuples
//@harness laws_string_len2 :: carries :: bounded(len<=2, 7-bit bytes) :: tier=thorough :: E,A,S,H,P on strings
#[cfg_attr(kani, kani::proof)] #[cfg_attr(kani, kani::unwind(50))]
pub fn laws_string_len2() { laws_kind(6, 2); }
//@harness laws_vector_len2 :: carries :: bounded(len<=2) :: tier=thorough :: E,A,S,H,P on f32 vectors
#[cfg_attr(kani, kani::proof)] #[cfg_attr(kani, kani::unwind(50))]
pub fn laws_vector_len2() { laws_kind(7, 2); }
//@harness laws_vecint8_len2 :: carries :: bounded(len<=2) :: tier=thorough :: E,A,S,H,P on i8 vectors
#[cfg_attr(kani, kani::proof)] #[cfg_attr(kani, kani::unwind(50))]
pub fn laws_vecint8_len2() { laws_kind(8, 2); }
//@harness trans_vector_len2 :: carries :: bounded(len<=2) :: tier=thorough :: T on f32 vectors
#[cfg_attr(kani, kani::proof)] #[cfg_attr(kani, kani::unwind(5))]
pub fn trans_vector_len2() { trans_kind(7, 2); }

fn tup2f() -> Tuple { Tuple::new(vec![Value::Float64(vk::f64()), Value::Int64(vk::i64())]) }
//@harness tuple_laws_len2 :: carries :: bounded(len=2: Float64,Int64) :: tuples: cmp==Equal <=> ==, antisymmetry, cmp is the lexicographic lifting of Value::cmp
#[cfg_attr(kani, kani::proof)] #[cfg_attr(kani, kani::unwind(4))]
pub fn tuple_laws_len2() {
    let a = tup2f(); let b = tup2f();
    vk_reach!();
    let c = a.cmp(&b);
    let e = a == b;
    let (c0, c1, e0, e1) = {
        let mut ia = a.iter(); let mut ib = b.iter();
        let (a0, b0) = (ia.next().unwrap(), ib.next().unwrap());
        let (a1, b1) = (ia.next().unwrap(), ib.next().unwrap());
        (a0.cmp(b0), a1.cmp(b1), a0 == b0, a1 == b1)
    };
    let lex = if c0 != Ordering::Equal { c0 } else { c1 };
    let anti = b.cmp(&a) == c.reverse();
    std::mem::forget(a); std::mem::forget(b);
    vk_check!(c == lex, "TL: Tuple::cmp is lexicographic over Value::cmp");
    vk_check!(e == (e0 && e1), "TE: Tuple == is element-wise Value ==");
    vk_check!((c == Ordering::Equal) == e, "E: tuple cmp==Equal <=> ==");
    vk_check!(anti, "A: tuple antisymmetry");
}
//@harness tuple_len_mismatch :: carries :: bounded(len 1 vs 2) :: a proper prefix is Less, never Equal, never ==
#[cfg_attr(kani, kani::proof)] #[cfg_attr(kani, kani::unwind(4))]
pub fn tuple_len_mismatch() {
    let x = vk::i64();
    let a = Tuple::new(vec![Value::Int64(x)]);
    let b = Tuple::new(vec![Value::Int64(x), Value::Int64(vk::i64())]);
    vk_reach!();
    let ok = a.cmp(&b) == Ordering::Less && b.cmp(&a) == Ordering::Greater && !(a == b);
    std::mem::forget(a); std::mem::forget(b);
    vk_check!(ok, "TP: proper prefix is Less and not ==");
}

#[cfg(all(test, not(kani)))]
pub const HARNESSES: &[(&str, fn())] = &[
    ("laws_null", laws_null), ("laws_bool", laws_bool), ("laws_int32", laws_int32), ("laws_int64", laws_int64),
    ("laws_float64", laws_float64), ("laws_timestamp", laws_timestamp), ("laws_string", laws_string),
    ("laws_vector", laws_vector), ("laws_vecint8", laws_vecint8),
    ("trans_null", trans_null), ("trans_bool", trans_bool), ("trans_int32", trans_int32), ("trans_int64", trans_int64),
    ("trans_float64", trans_float64), ("trans_timestamp", trans_timestamp), ("trans_string", trans_string),
    ("trans_vector", trans_vector), ("trans_vecint8", trans_vecint8),
    ("cross_null", cross_null), ("cross_bool", cross_bool), ("cross_int32", cross_int32), ("cross_int64", cross_int64),
    ("cross_float64", cross_float64), ("cross_timestamp", cross_timestamp), ("cross_string", cross_string),
    ("cross_vector", cross_vector), ("cross_vecint8", cross_vecint8),
    ("kind_table", kind_table), ("laws_vector_len2", laws_vector_len2), ("laws_string_len2", laws_string_len2), ("laws_vecint8_len2", laws_vecint8_len2), ("trans_vector_len2", trans_vector_len2), ("tuple_laws_len2", tuple_laws_len2),
    ("tuple_len_mismatch", tuple_len_mismatch),
];
#[cfg(all(test, not(kani)))]
#[test]
fn verif_replay() {
    if let Some(name) = vk::load_replay() {
        let f = HARNESSES.iter().find(|(n, _)| *n == name).expect("unknown harness").1;
        f();
    }
}
