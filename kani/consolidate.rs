// C11 — `to_tuples`, the last step of recovery (child module of src/storage/persist/consolidate.rs): after
// consolidate_to_current the live relation is exactly the tuples with POSITIVE net multiplicity.
// BOUNDED: 2 updates, one Int64 column.  (The merge loop itself is the unbounded Verus unit; `sort_by` on
// Vec<Update> exhausts CBMC, DESIGN §2.)
use super::*;
use crate::value::Value;
include!("/verif/kani/common.rs");

//@harness to_tuples_keeps_positive :: carries :: bounded(2 updates, 1 Int64 column) :: to_tuples returns, in order, exactly the data of the updates whose diff is > 0 (zero and negative multiplicities are dropped)
#[cfg_attr(kani, kani::proof)] #[cfg_attr(kani, kani::unwind(4))]
pub fn to_tuples_keeps_positive() {
    let a = vk::i64(); let b = vk::i64(); let da = vk::i64(); let db = vk::i64();
    let ups = vec![Update { data: Tuple::new(vec![Value::Int64(a)]), time: 0, diff: da },
                   Update { data: Tuple::new(vec![Value::Int64(b)]), time: 0, diff: db }];
    vk_reach!();
    let out = to_tuples(&ups);
    let want_len = (da > 0) as usize + (db > 0) as usize;
    let mut ok = out.len() == want_len;
    if ok {
        let mut i = 0;
        if da > 0 { ok = ok && out[i].get(0) == Some(&Value::Int64(a)); i += 1; }
        if db > 0 { ok = ok && out[i].get(0) == Some(&Value::Int64(b)); }
    }
    std::mem::forget(out); std::mem::forget(ups);
    vk_check!(ok, "TT: to_tuples == [u.data | u in updates, u.diff > 0]");
}

#[cfg(all(test, not(kani)))]
pub const HARNESSES: &[(&str, fn())] = &[("to_tuples_keeps_positive", to_tuples_keeps_positive)];
#[cfg(all(test, not(kani)))]
#[test]
fn verif_replay() {
    if let Some(name) = vk::load_replay() {
        let f = HARNESSES.iter().find(|(n, _)| *n == name).expect("unknown harness").1;
        f();
    }
}
