// C12 — per-column coercion kernel of the batch-file path (tuples_to_record_batch / record_batch_to_tuples).
// The pairing "column type -> Value accessor -> Arrow array type -> Value constructor" is generated on every
// run from the match arms of build_column_array / extract_value_from_array (tools/gen_coercion.py) into
// coercion_table.rs; the accessors (`Value::as_i32`, `as_i64`, `as_f64`, `as_str`, `as_bool`, `as_timestamp`),
// `Value::data_type` and `Value ==` are the real code.  Assumed: an Arrow array returns the Option<payload>
// it was built from (dependency contract).
//
// Obligation (from the property): a value v accepted into a column whose type T was taken from the first
// row comes back as a value == v (same kind, same bits) — nothing is silently changed or nulled.
use super::*;
include!("/verif/kani/common.rs");
include!("/var/tmp/ilverif/gen/coercion_table.rs");

const NK: usize = 7;
/// symbolic value of concrete scalar kind k (index = position in gen_coercion.SCALARS)
fn mk(k: usize) -> Value {
    match k {
        0 => Value::Int32(vk::i32()),
        1 => Value::Int64(vk::i64()),
        2 => Value::Float64(vk::f64()),
        3 => { let b = [vk::u8() & 0x7f]; let n = (vk::u8() & 1) as usize; let _ = n;
               Value::String(Arc::from(unsafe { std::str::from_utf8_unchecked(&b[..1]) })) }
        4 => Value::Bool(vk::bool()),
        5 => Value::Null,
        _ => Value::Timestamp(vk::i64()),
    }
}
/// the column type chosen for a relation whose first row holds a value of kind k: infer_schema_from_updates
/// uses `first.data_type()`; checked here against the real data_type()
fn col_of(first: &Value) -> usize {
    match first.data_type() {
        DataType::Int32 => 0, DataType::Int64 => 1, DataType::Float64 => 2, DataType::String => 3,
        DataType::Bool => 4, DataType::Null => 5, DataType::Timestamp => 6,
        _ => 99,
    }
}
fn survives(col: usize, v: Value) -> bool {
    let back = load(store(col, &v));
    let ok = back == v;
    std::mem::forget(back); std::mem::forget(v);
    ok
}
fn survives_payload(col: usize, v: Value) -> bool {
    // weaker: the scalar payload survives even if the kind tag does not (Timestamp(t) -> Int64(t))
    let back = load(store(col, &v));
    let ok = match (&back, &v) { (Value::Int64(a), Value::Timestamp(b)) => a == b, _ => back == v };
    std::mem::forget(back); std::mem::forget(v);
    ok
}

macro_rules! col_harnesses { ($t:expr, $homog:ident, $full:ident, $null:ident) => {
    #[cfg_attr(kani, kani::proof)] #[cfg_attr(kani, kani::unwind(4))]
    pub fn $homog() {
        vk_reach!();
        let first = mk($t); let col = col_of(&first); std::mem::forget(first);
        vk_check!(col == $t, "S: the column type inferred from the first row is the row's own kind");
        vk_check!(survives(col, mk($t)), "H: a value of the column's own kind comes back == (same kind, same bits)");
    }
    #[cfg_attr(kani, kani::proof)] #[cfg_attr(kani, kani::unwind(9))]
    pub fn $full() {
        vk_reach!();
        let mut k = 0;
        while k < NK { vk_check!(survives($t, mk(k)), "M: a value of ANY kind stored in this column comes back == (or the batch is rejected)"); k += 1; }
    }
    #[cfg_attr(kani, kani::proof)] #[cfg_attr(kani, kani::unwind(4))]
    pub fn $null() { vk_reach!(); vk_check!(survives($t, Value::Null), "N: Null survives in a column of any type"); }
}; }
col_harnesses!(0, homog_int32, mixed_int32, null_in_int32);
col_harnesses!(1, homog_int64, mixed_int64, null_in_int64);
col_harnesses!(2, homog_float64, mixed_float64, null_in_float64);
col_harnesses!(3, homog_string, mixed_string, null_in_string);
col_harnesses!(4, homog_bool, mixed_bool, null_in_bool);
col_harnesses!(5, homog_null, mixed_null, null_in_null);
col_harnesses!(6, homog_timestamp, mixed_timestamp, null_in_timestamp);
//@harness homog_int32     :: carries :: full :: homogeneous Int32 column round-trips, every payload
//@harness homog_int64     :: carries :: full :: homogeneous Int64 column round-trips, every payload
//@harness homog_float64   :: carries :: full :: homogeneous Float64 column round-trips bit-for-bit (-0.0, every NaN payload)
//@harness homog_string    :: carries :: bounded(len 1, 7-bit byte) :: homogeneous String column round-trips
//@harness homog_bool      :: carries :: full :: homogeneous Bool column round-trips
//@harness homog_null      :: carries :: full :: all-Null column round-trips
//@harness homog_timestamp :: carries :: full :: homogeneous Timestamp column round-trips (kind AND payload)
//@harness null_in_int32     :: carries :: full :: Null in an Int32 column comes back Null
//@harness null_in_int64     :: carries :: full :: Null in an Int64 column comes back Null
//@harness null_in_float64   :: carries :: full :: Null in a Float64 column comes back Null
//@harness null_in_string    :: carries :: full :: Null in a String column comes back Null
//@harness null_in_bool      :: carries :: full :: Null in a Bool column comes back Null
//@harness null_in_null      :: carries :: full :: Null in a Null column comes back Null
//@harness null_in_timestamp :: carries :: full :: Null in a Timestamp column comes back Null
//@harness mixed_int32     :: carries :: full(scalars) bounded(string len 1) :: every scalar kind stored in an Int32-typed column comes back unchanged
//@harness mixed_int64     :: carries :: full(scalars) bounded(string len 1) :: every scalar kind stored in an Int64-typed column comes back unchanged
//@harness mixed_float64   :: carries :: full(scalars) bounded(string len 1) :: every scalar kind stored in a Float64-typed column comes back unchanged
//@harness mixed_string    :: carries :: full(scalars) bounded(string len 1) :: every scalar kind stored in a String-typed column comes back unchanged
//@harness mixed_bool      :: carries :: full(scalars) bounded(string len 1) :: every scalar kind stored in a Bool-typed column comes back unchanged
//@harness mixed_null      :: carries :: full(scalars) bounded(string len 1) :: every scalar kind stored in a Null-typed column comes back unchanged
//@harness mixed_timestamp :: carries :: full(scalars) bounded(string len 1) :: every scalar kind stored in a Timestamp-typed column comes back unchanged

//@harness timestamp_payload :: carries :: full :: residual of the Timestamp finding: the millisecond payload of a Timestamp in a Timestamp column survives (as Timestamp or Int64)
#[cfg_attr(kani, kani::proof)] #[cfg_attr(kani, kani::unwind(4))]
pub fn timestamp_payload() { vk_reach!(); vk_check!(survives_payload(6, mk(6)), "TP: Timestamp payload survives"); }

#[cfg(all(test, not(kani)))]
pub const HARNESSES: &[(&str, fn())] = &[
    ("homog_int32", homog_int32), ("homog_int64", homog_int64), ("homog_float64", homog_float64), ("homog_string", homog_string),
    ("homog_bool", homog_bool), ("homog_null", homog_null), ("homog_timestamp", homog_timestamp),
    ("null_in_int32", null_in_int32), ("null_in_int64", null_in_int64), ("null_in_float64", null_in_float64),
    ("null_in_string", null_in_string), ("null_in_bool", null_in_bool), ("null_in_null", null_in_null), ("null_in_timestamp", null_in_timestamp),
    ("mixed_int32", mixed_int32), ("mixed_int64", mixed_int64), ("mixed_float64", mixed_float64), ("mixed_string", mixed_string),
    ("mixed_bool", mixed_bool), ("mixed_null", mixed_null), ("mixed_timestamp", mixed_timestamp), ("timestamp_payload", timestamp_payload),
];
#[cfg(all(test, not(kani)))]
#[test]
fn verif_replay() {
    if let Some(name) = vk::load_replay() {
        let f = HARNESSES.iter().find(|(n, _)| *n == name).expect("unknown harness").1;
        f();
    }
}
