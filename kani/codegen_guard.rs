// C03 — concrete-tree companion of verus/codegen_guard.spec: executes the REAL contains_join (including the real
// `inputs.iter().any(Self::contains_join)` the Verus unit assumes a contract for) on small concrete plans.
// Obligation (G): a plan containing an operator that does not distribute over input partitions (Join,
// JoinFlatMap, Antijoin, Aggregate) must make contains_join return true — otherwise execute_with_config
// partitions it.  Bounded: one tree per harness (depth <= 2; unwind 3 — the recursion through `any` multiplies call sites, deeper trees exhaust CBMC); the unbounded statement is the Verus obligation.
// These harnesses also give the failing input + replay when the Verus obligation fails.
use super::*;
include!("/verif/kani/common.rs");

fn scan() -> IRNode { IRNode::Scan { relation: String::new(), schema: Vec::new() } }
fn join() -> IRNode { IRNode::Join { left: Box::new(scan()), right: Box::new(scan()), left_keys: Vec::new(), right_keys: Vec::new(), output_schema: Vec::new() } }
fn jfm() -> IRNode { IRNode::JoinFlatMap { left: Box::new(scan()), right: Box::new(scan()), left_keys: Vec::new(), right_keys: Vec::new(), projection: Vec::new(), filter_predicate: None, output_schema: Vec::new() } }
fn anti() -> IRNode { IRNode::Antijoin { left: Box::new(scan()), right: Box::new(scan()), left_keys: Vec::new(), right_keys: Vec::new(), output_schema: Vec::new() } }
fn agg(i: IRNode) -> IRNode { IRNode::Aggregate { input: Box::new(i), group_by: Vec::new(), aggregations: Vec::new(), output_schema: Vec::new() } }
fn map(i: IRNode) -> IRNode { IRNode::Map { input: Box::new(i), projection: Vec::new(), output_schema: Vec::new() } }
fn filter(i: IRNode) -> IRNode { IRNode::Filter { input: Box::new(i), predicate: Predicate::ColumnGtConst(0, 0) } }
fn distinct(i: IRNode) -> IRNode { IRNode::Distinct { input: Box::new(i) } }
fn compute(i: IRNode) -> IRNode { IRNode::Compute { input: Box::new(i), expressions: Vec::new() } }
fn flatmap(i: IRNode) -> IRNode { IRNode::FlatMap { input: Box::new(i), projection: Vec::new(), filter_predicate: None, output_schema: Vec::new() } }
fn union2(a: IRNode, b: IRNode) -> IRNode { IRNode::Union { inputs: vec![a, b] } }

fn must_guard(ir: IRNode) {
    vk_reach!();
    let r = CodeGenerator::contains_join(&ir);
    std::mem::forget(ir);
    vk_check!(r, "G: a plan with a non-distributing operator must not be partitioned (contains_join must be true)");
}
macro_rules! tree { ($n:ident, $e:expr) => {
    #[cfg_attr(kani, kani::proof)] #[cfg_attr(kani, kani::unwind(3))]
    pub fn $n() { must_guard($e); } }; }
//@harness leaf_join          :: carries :: bounded(one concrete tree) :: timeout=600 :: Join(Scan,Scan)
//@harness leaf_antijoin      :: carries :: bounded(one concrete tree) :: timeout=600 :: Antijoin(Scan,Scan)
//@harness leaf_aggregate     :: carries :: bounded(one concrete tree) :: timeout=600 :: Aggregate(Scan)
//@harness map_over_join      :: carries :: bounded(one concrete tree) :: timeout=600 :: Map(Join(Scan,Scan))
//@harness distinct_over_anti :: carries :: bounded(one concrete tree) :: tier=thorough :: timeout=900 :: Distinct(Antijoin)
//@harness agg_over_join      :: carries :: bounded(one concrete tree) :: tier=thorough :: timeout=900 :: Aggregate(Join)
//@harness union_second_join  :: carries :: bounded(one concrete tree) :: tier=thorough :: timeout=900 :: Union[Scan, Join] — exercises the real Iterator::any
tree!(leaf_join, join());
tree!(leaf_antijoin, anti());
tree!(leaf_aggregate, agg(scan()));
tree!(map_over_join, map(join()));
tree!(distinct_over_anti, distinct(anti()));
tree!(agg_over_join, agg(join()));
tree!(union_second_join, union2(scan(), join()));

#[cfg(all(test, not(kani)))]
pub const HARNESSES: &[(&str, fn())] = &[
    ("leaf_join", leaf_join), ("leaf_antijoin", leaf_antijoin), ("leaf_aggregate", leaf_aggregate),
    ("map_over_join", map_over_join), ("distinct_over_anti", distinct_over_anti), ("agg_over_join", agg_over_join),
    ("union_second_join", union_second_join),
];
#[cfg(all(test, not(kani)))]
#[test]
fn verif_replay() {
    if let Some(name) = vk::load_replay() {
        let f = HARNESSES.iter().find(|(n, _)| *n == name).expect("unknown harness").1;
        f();
    }
}
