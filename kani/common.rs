// Shared by every harness module (include!d).  One source of nondeterministic inputs with two back
// ends: under `cfg(kani)` each vk_*() is `kani::any()`; under `cfg(test)` (replay of a verifier
// counterexample against the real code, built with the repository's own toolchain) the values are
// read, in call order, from the byte vectors Kani's concrete playback printed.

#[allow(dead_code)]
mod vk {
    #[cfg(not(kani))]
    thread_local! {
        pub static QUEUE: std::cell::RefCell<std::collections::VecDeque<Vec<u8>>> =
            std::cell::RefCell::new(std::collections::VecDeque::new());
    }
    #[cfg(not(kani))]
    fn next<const N: usize>() -> [u8; N] {
        let v = QUEUE.with(|q| q.borrow_mut().pop_front()).unwrap_or_else(|| panic!("{}//{}", "VERIF-REPLAY", "EXHAUSTED"));
        let mut a = [0u8; N];
        for (i, b) in v.iter().take(N).enumerate() { a[i] = *b; }
        a
    }
    macro_rules! src {
        ($name:ident, $t:ty, $n:expr) => {
            #[cfg(kani)] #[inline(always)] pub fn $name() -> $t { kani::any() }
            #[cfg(not(kani))] pub fn $name() -> $t { <$t>::from_le_bytes(next::<$n>()) }
        };
    }
    src!(u8, u8, 1); src!(i8, i8, 1); src!(u16, u16, 2); src!(i32, i32, 4); src!(u32, u32, 4);
    src!(i64, i64, 8); src!(u64, u64, 8); src!(usize, usize, 8);
    #[cfg(kani)] #[inline(always)] pub fn f64() -> f64 { kani::any() }
    #[cfg(not(kani))] pub fn f64() -> f64 { f64::from_le_bytes(next::<8>()) }
    #[cfg(kani)] #[inline(always)] pub fn f32() -> f32 { kani::any() }
    #[cfg(not(kani))] pub fn f32() -> f32 { f32::from_le_bytes(next::<4>()) }
    #[cfg(kani)] #[inline(always)] pub fn bool() -> bool { kani::any() }
    #[cfg(not(kani))] pub fn bool() -> bool { next::<1>()[0] != 0 }

    #[cfg(kani)] #[inline(always)] pub fn assume(c: bool) { kani::assume(c) }
    #[cfg(not(kani))] pub fn assume(c: bool) { if !c { panic!("{}//{}", "VERIF-REPLAY", "OUTSIDE-ASSUMPTIONS") } }

    #[cfg(not(kani))] pub fn violated(label: &'static str) -> ! { panic!("{}//{} {}", "VERIF-REPLAY", "VIOLATED", label) }

    #[cfg(not(kani))]
    pub fn load_replay() -> Option<String> {
        let p = std::env::var("VERIF_REPLAY_FILE").ok()?;
        let txt = std::fs::read_to_string(p).expect("replay file");
        let v: serde_json::Value = serde_json::from_str(&txt).expect("replay json");
        let name = v["harness"].as_str().expect("harness").to_string();
        let mut q = std::collections::VecDeque::new();
        for item in v["bytes"].as_array().expect("bytes") {
            q.push_back(item.as_array().expect("vec").iter().map(|b| b.as_u64().unwrap() as u8).collect());
        }
        QUEUE.with(|qq| *qq.borrow_mut() = q);
        Some(name)
    }
}

/// the obligation itself: a literal label so that Kani's "Failed Checks:" line names the clause
#[cfg(kani)]
macro_rules! vk_check { ($c:expr, $l:literal) => { assert!($c, $l) }; }
#[cfg(not(kani))]
macro_rules! vk_check { ($c:expr, $l:literal) => { if !($c) { vk::violated($l) } }; }
/// reachability witness behind the assumptions (vacuity guard): every harness has at least one
#[cfg(kani)]
macro_rules! vk_reach { () => { kani::cover!(true, "REACH") }; ($c:expr) => { kani::cover!($c, "REACH") }; }
#[cfg(not(kani))]
macro_rules! vk_reach { () => {}; ($c:expr) => { let _ = $c; }; }
