// C26 — distance / bit builtins on the real code (child module of src/vector_ops.rs), fixed small dimensions.
// Laws from the property: distances are symmetric, non-negative, zero on identical inputs; cosine in [0,2];
// probe sequences are ordered by Hamming distance — lsh_probes' witness structure is the Verus unit
// (verus/lsh.spec); here the link "flipping k distinct bits below 62 gives hamming_distance == k" on the real
// hamming_distance (count_ones).  Float harnesses are over every finite f32 bit pattern unless a magnitude
// bound is stated; every float counterexample is replayed on the real code (CBMC's sqrt is a model).
use super::*;
include!("/verif/kani/common.rs");

fn fin() -> f32 { let x = vk::f32(); vk::assume(x.is_finite()); x }
fn fin_lt(m: f32) -> f32 { let x = vk::f32(); vk::assume(x.is_finite() && x.abs() < m); x }

//@harness hamming_laws :: carries :: full :: hamming_distance is symmetric, in [0,64], and zero exactly on equal arguments
#[cfg_attr(kani, kani::proof)]
pub fn hamming_laws() {
    let a = vk::i64(); let b = vk::i64();
    vk_reach!();
    let d = hamming_distance(a, b);
    vk_check!(d == hamming_distance(b, a), "HS: hamming symmetric");
    vk_check!(d >= 0 && d <= 64, "HR: hamming in [0,64]");
    vk_check!((d == 0) == (a == b), "HZ: hamming zero iff equal");
}
//@harness hamming_flip_count :: carries :: full :: flipping 1, 2 or 3 distinct bit positions (< 62) of any bucket gives hamming distance exactly 1, 2, 3 (links lsh_probes' flip count to Hamming distance)
#[cfg_attr(kani, kani::proof)]
pub fn hamming_flip_count() {
    let bucket = vk::i64();
    let i = vk::u8(); let j = vk::u8(); let k = vk::u8();
    vk::assume(i < j && j < k && k < 62);
    vk_reach!();
    vk_check!(hamming_distance(bucket, bucket) == 0, "HF0");
    vk_check!(hamming_distance(bucket ^ (1i64 << i), bucket) == 1, "HF1: one flipped bit");
    vk_check!(hamming_distance(bucket ^ (1i64 << i) ^ (1i64 << j), bucket) == 2, "HF2: two flipped bits");
    vk_check!(hamming_distance(bucket ^ (1i64 << i) ^ (1i64 << j) ^ (1i64 << k), bucket) == 3, "HF3: three flipped bits");
}
//@harness abs_laws :: carries :: full :: abs_i64 >= 0 for every input (saturating at i64::MIN), even, identity on non-negatives; abs_f64 never negative
#[cfg_attr(kani, kani::proof)]
pub fn abs_laws() {
    let x = vk::i64(); let f = vk::f64();
    vk_reach!();
    vk_check!(abs_i64(x) >= 0, "AB: abs_i64 non-negative");
    vk_check!(x == i64::MIN || abs_i64(x) == abs_i64(-x), "AE: abs_i64 even");
    vk_check!(x < 0 || abs_i64(x) == x, "AI: abs_i64 identity on non-negatives");
    vk_check!(!(abs_f64(f) < 0.0), "AF: abs_f64 never negative");
}

//@harness manhattan_dim1 :: carries :: bounded(dim 1) :: manhattan: symmetric bit-for-bit, non-negative, zero on identical input, every finite f32
#[cfg_attr(kani, kani::proof)] #[cfg_attr(kani, kani::unwind(3))]
pub fn manhattan_dim1() {
    let a = [fin()]; let b = [fin()];
    vk_reach!();
    let d1 = manhattan_distance(&a, &b); let d2 = manhattan_distance(&b, &a);
    vk_check!(d1.to_bits() == d2.to_bits(), "MS: manhattan symmetric");
    vk_check!(d1 >= 0.0, "MN: manhattan non-negative");
    vk_check!(manhattan_distance(&a, &a) == 0.0, "MZ: manhattan zero on identical input");
}
//@harness manhattan_dim2 :: carries :: bounded(dim 2) :: tier=thorough :: timeout=900 :: manhattan: symmetric bit-for-bit, non-negative, every finite f32
#[cfg_attr(kani, kani::proof)] #[cfg_attr(kani, kani::unwind(4))]
pub fn manhattan_dim2() {
    let a = [fin(), fin()]; let b = [fin(), fin()];
    vk_reach!();
    let d1 = manhattan_distance(&a, &b); let d2 = manhattan_distance(&b, &a);
    vk_check!(d1.to_bits() == d2.to_bits(), "MS: manhattan symmetric");
    vk_check!(d1 >= 0.0, "MN: manhattan non-negative");
}
//@harness euclid_dim1_zero_nonneg :: carries :: bounded(dim 1) :: euclidean: zero on identical input and never negative, every finite f32
#[cfg_attr(kani, kani::proof)] #[cfg_attr(kani, kani::unwind(3))]
pub fn euclid_dim1_zero_nonneg() {
    let a = [fin()]; let b = [fin()];
    vk_reach!();
    vk_check!(euclidean_distance(&a, &a) == 0.0, "EZ: euclidean zero on identical input");
    let d = euclidean_distance(&a, &b);
    vk_check!(!(d < 0.0) && !d.is_nan(), "EN: euclidean non-negative (possibly +inf), never NaN");
    let q = euclidean_distance_squared(&a, &b);
    vk_check!(!(q < 0.0) && !q.is_nan(), "EQ: squared euclidean non-negative, never NaN");
}
//@harness euclid_dim1_symmetric :: carries :: bounded(dim 1) :: tier=thorough :: timeout=1800 :: euclidean symmetric bit-for-bit, every finite f32
#[cfg_attr(kani, kani::proof)] #[cfg_attr(kani, kani::unwind(3))]
pub fn euclid_dim1_symmetric() {
    let a = [fin()]; let b = [fin()];
    vk_reach!();
    vk_check!(euclidean_distance_squared(&a, &b).to_bits() == euclidean_distance_squared(&b, &a).to_bits(), "ES: euclidean symmetric");
}

//@harness cosine_range_dim1 :: carries :: bounded(dim 1) :: tier=thorough :: timeout=1200 :: cosine_distance and cosine_distance_checked in [0,2] (never NaN) for EVERY finite input, incl. magnitudes whose squares overflow f32
#[cfg_attr(kani, kani::proof)] #[cfg_attr(kani, kani::unwind(3))]
pub fn cosine_range_dim1() {
    let a = [fin()]; let b = [fin()];
    vk_reach!();
    let d = cosine_distance(&a, &b);
    vk_check!(d >= 0.0 && d <= 2.0, "CR: cosine_distance in [0,2]");
    let c = cosine_distance_checked(&a, &b);
    let ok = match &c { Ok(x) => *x >= 0.0 && *x <= 2.0, Err(_) => false };
    std::mem::forget(c);
    vk_check!(ok, "CRc: cosine_distance_checked in [0,2]");
}
// cosine_distance(a,a) == 0 (dim 1, every finite a): CBMC gives no result in 40 min after the f64 change — not decided.
//@harness cosine_range_dim2 :: carries :: bounded(dim 2) :: tier=thorough :: timeout=1800 :: cosine_distance in [0,2] for every finite input
#[cfg_attr(kani, kani::proof)] #[cfg_attr(kani, kani::unwind(4))]
pub fn cosine_range_dim2() {
    let a = [fin(), fin()]; let b = [fin(), fin()];
    vk_reach!();
    let d = cosine_distance(&a, &b);
    vk_check!(d >= 0.0 && d <= 2.0, "CR: cosine_distance in [0,2]");
}
// cosine symmetric bit-for-bit (dim 1): CBMC gives no result in 30 min — not decided.

#[cfg(all(test, not(kani)))]
pub const HARNESSES: &[(&str, fn())] = &[
    ("hamming_laws", hamming_laws), ("hamming_flip_count", hamming_flip_count), ("abs_laws", abs_laws),
    ("manhattan_dim1", manhattan_dim1), ("manhattan_dim2", manhattan_dim2), ("euclid_dim1_zero_nonneg", euclid_dim1_zero_nonneg),
    ("euclid_dim1_symmetric", euclid_dim1_symmetric), ("cosine_range_dim1", cosine_range_dim1),
    ("cosine_range_dim2", cosine_range_dim2),
];
#[cfg(all(test, not(kani)))]
#[test]
fn verif_replay() {
    if let Some(name) = vk::load_replay() {
        let f = HARNESSES.iter().find(|(n, _)| *n == name).expect("unknown harness").1;
        f();
    }
}
