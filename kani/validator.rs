// C33 — ValidationEngine::validate_batch / validate_tuple on the real code (child module of
// src/schema/validator.rs).  Obligation: the batch is accepted iff EVERY tuple has the schema's arity and every
// value conforms to its column's declared type (all-or-nothing: one bad tuple rejects the whole batch; a fully
// conforming batch is never rejected).  Conformance itself is `SchemaType::matches`, proved equal to the type
// table for every value in verus/matches.spec.  BOUNDED: 1–2 tuples, 1 column, scalar value kinds;
// `format!` on the error path is stubbed (alloc::fmt::format is irrelevant to control flow).
use super::*;
use crate::schema::{ColumnSchema, SchemaType};
use crate::value::Value;
include!("/verif/kani/common.rs");

#[cfg(kani)]
fn no_format(_a: std::fmt::Arguments<'_>) -> String { String::new() }

fn ty(t: usize) -> SchemaType {
    match t { 0 => SchemaType::Int, 1 => SchemaType::Float, 2 => SchemaType::Bool, 3 => SchemaType::Timestamp, 4 => SchemaType::String, _ => SchemaType::Any }
}
/// symbolic scalar value: symbolic kind among the heap-free kinds, symbolic payload
fn val() -> Value {
    let k = vk::u8() % 6;
    if k == 0 { Value::Int32(vk::i32()) } else if k == 1 { Value::Int64(vk::i64()) } else if k == 2 { Value::Float64(vk::f64()) }
    else if k == 3 { Value::Bool(vk::bool()) } else if k == 4 { Value::Timestamp(vk::i64()) } else { Value::Null }
}
fn schema1(t: usize) -> RelationSchema {
    RelationSchema { name: String::new(), columns: vec![ColumnSchema { name: String::new(), data_type: ty(t) }] }
}

fn one_by_one(t: usize) {
    let schema = schema1(t);
    let v = val();
    let conf = ty(t).matches(&v);
    let tup = Tuple::new(vec![v]);
    vk_reach!();
    let mut e = ValidationEngine::new();
    let ok = e.validate_batch(&schema, std::slice::from_ref(&tup)).is_ok();
    std::mem::forget(tup); std::mem::forget(schema);
    vk_check!(ok == conf, "V1: a one-tuple batch is accepted iff its value conforms to the declared column type");
}
macro_rules! h1 { ($n:ident, $t:expr) => {
    #[cfg_attr(kani, kani::proof)] #[cfg_attr(kani, kani::unwind(4))] #[cfg_attr(kani, kani::stub(alloc::fmt::format, no_format))]
    pub fn $n() { one_by_one($t); } }; }
//@harness batch1_int       :: carries :: bounded(1 tuple x 1 column, scalar kinds) :: timeout=900 :: column type int
//@harness batch1_float     :: carries :: bounded(1 tuple x 1 column, scalar kinds) :: timeout=900 :: column type float
//@harness batch1_bool      :: carries :: bounded(1 tuple x 1 column, scalar kinds) :: timeout=900 :: column type bool
//@harness batch1_timestamp :: carries :: bounded(1 tuple x 1 column, scalar kinds) :: timeout=900 :: column type timestamp
h1!(batch1_int, 0);
h1!(batch1_float, 1);
h1!(batch1_bool, 2);
h1!(batch1_timestamp, 3);

//@harness batch_arity :: carries :: bounded(1 tuple, 1 column schema, tuple arity 0 or 2) :: tier=thorough :: timeout=1800 :: a tuple of the wrong arity rejects the batch
#[cfg_attr(kani, kani::proof)] #[cfg_attr(kani, kani::unwind(4))] #[cfg_attr(kani, kani::stub(alloc::fmt::format, no_format))]
pub fn batch_arity() {
    let schema = schema1(5); // any: only arity can fail
    let tup = if vk::bool() { Tuple::new(Vec::new()) } else { Tuple::new(vec![Value::Int64(vk::i64()), Value::Int64(vk::i64())]) };
    vk_reach!();
    let mut e = ValidationEngine::new();
    let ok = e.validate_batch(&schema, std::slice::from_ref(&tup)).is_ok();
    std::mem::forget(tup); std::mem::forget(schema);
    vk_check!(!ok, "VA: wrong arity is rejected even when every column type is `any`");
}

//@harness batch2_all_or_nothing :: carries :: bounded(2 tuples x 1 int column, scalar kinds) :: tier=thorough :: timeout=1800 :: accepted iff BOTH tuples conform (one bad tuple anywhere rejects the whole batch; two good ones are accepted)
#[cfg_attr(kani, kani::proof)] #[cfg_attr(kani, kani::unwind(5))] #[cfg_attr(kani, kani::stub(alloc::fmt::format, no_format))]
pub fn batch2_all_or_nothing() {
    let schema = schema1(0);
    let a = val(); let b = val();
    let conf = SchemaType::Int.matches(&a) && SchemaType::Int.matches(&b);
    let ts = [Tuple::new(vec![a]), Tuple::new(vec![b])];
    vk_reach!();
    let mut e = ValidationEngine::new();
    let ok = e.validate_batch(&schema, &ts).is_ok();
    std::mem::forget(ts); std::mem::forget(schema);
    vk_check!(ok == conf, "V2: a two-tuple batch is accepted iff both tuples conform (all-or-nothing, complete)");
}

#[cfg(all(test, not(kani)))]
pub const HARNESSES: &[(&str, fn())] = &[
    ("batch1_int", batch1_int), ("batch1_float", batch1_float), ("batch1_bool", batch1_bool), ("batch1_timestamp", batch1_timestamp),
    ("batch_arity", batch_arity), ("batch2_all_or_nothing", batch2_all_or_nothing),
];
#[cfg(all(test, not(kani)))]
#[test]
fn verif_replay() {
    if let Some(name) = vk::load_replay() {
        let f = HARNESSES.iter().find(|(n, _)| *n == name).expect("unknown harness").1;
        f();
    }
}
