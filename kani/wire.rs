// C35 — the sort comparator `compare_wire_values` (and `wire_value_type_rank`): a total preorder on
// Option<&WireValue> for EVERY mix of kinds, which is what `slice::sort_by` needs in order not to
// panic / to sort ("sorting never fails for any mix of value kinds"; ties in any order).
//
// Reduction: classes  None | Null | Bool | Int32 | Num = {Int64, Float64} | String | Timestamp |
// Vec = {Vector, VectorInt8} | Bytes.  The comparator is a total preorder iff
//   (within class C)  A[C] cmp(b,a) == cmp(a,b).reverse()      T[C] a<=b && b<=c => a<=c
//   (class C != D)    X[C] cmp(a,b) is payload independent, never Equal, antisymmetric
//   (class table)     TT   the payload-independent table is a strict total order
// (ordinal-sum meta-lemma: verus/order_lemmas.spec with eq := cmp==Equal).  The classes are NOT taken
// from the code: a comparator that ranks differently but consistently passes; one that is not a
// preorder fails whichever way the classes are drawn (the Num class is needed because Int64 and
// Float64 are compared numerically with each other).
use super::*;
use std::cmp::Ordering;
include!("/verif/kani/common.rs");

const NCLASS: usize = 9;
/// symbolic value of a concrete class; `sub` selects the member kind for the two-kind classes
fn mk(class: usize, sub: bool, n: usize) -> Option<WireValue> {
    match class {
        0 => None,
        1 => Some(WireValue::Null),
        2 => Some(WireValue::Bool(vk::bool())),
        3 => Some(WireValue::Int32(vk::i32())),
        4 => Some(if sub { WireValue::Int64(vk::i64()) } else { WireValue::Float64(vk::f64()) }),
        5 => { let b = [vk::u8() & 0x7f, vk::u8() & 0x7f];
               Some(WireValue::String(unsafe { std::str::from_utf8_unchecked(&b[..n]) }.to_string())) }
        6 => Some(WireValue::Timestamp(vk::i64())),
        7 => Some(if sub { let mut v = Vec::with_capacity(n); let mut i = 0; while i < n { v.push(vk::f32()); i += 1; } WireValue::Vector(v) }
                  else { let mut v = Vec::with_capacity(n); let mut i = 0; while i < n { v.push(vk::i8()); i += 1; } WireValue::VectorInt8(v) }),
        _ => { let mut v = Vec::with_capacity(n); let mut i = 0; while i < n { v.push(vk::u8()); i += 1; } Some(WireValue::Bytes(v)) }
    }
}
fn le(o: Ordering) -> bool { o != Ordering::Greater }
fn c(a: &Option<WireValue>, b: &Option<WireValue>) -> Ordering { compare_wire_values(a.as_ref(), b.as_ref()) }

fn laws3(a: Option<WireValue>, b: Option<WireValue>, d: Option<WireValue>) {
    let ab = c(&a, &b); let ba = c(&b, &a); let bd = c(&b, &d); let ad = c(&a, &d); let aa = c(&a, &a);
    std::mem::forget(a); std::mem::forget(b); std::mem::forget(d);
    vk_check!(aa == Ordering::Equal, "R: cmp(a,a)==Equal");
    vk_check!(ba == ab.reverse(), "A: cmp(b,a)==cmp(a,b).reverse()");
    vk_check!(!(le(ab) && le(bd)) || le(ad), "T: a<=b && b<=c => a<=c");
    vk_check!(!(ab == Ordering::Equal && bd == Ordering::Equal) || ad == Ordering::Equal, "T=: a~b && b~c => a~c");
}
fn within(class: usize) {
    vk_reach!();
    match class {
        4 | 7 => {
            // every combination of member kinds (symbolic for Num: both are scalars; concrete for Vec)
            if class == 4 { laws3(mk(4, true, 0), mk(4, true, 0), mk(4, true, 0)); }
            else { let mut m = 0; while m < 8 { laws3(mk(7, m & 1 != 0, 1), mk(7, m & 2 != 0, 1), mk(7, m & 4 != 0, (m & 1) as usize)); m += 1; } }
        }
        5 | 8 => { let mut m = 0; while m < 8 { laws3(mk(class, true, m & 1), mk(class, true, (m >> 1) & 1), mk(class, true, (m >> 2) & 1)); m += 1; } }
        _ => laws3(mk(class, true, 0), mk(class, true, 0), mk(class, true, 0)),
    }
}
fn subs(class: usize) -> usize { if class == 4 || class == 7 { 2 } else { 1 } }
fn cross(k: usize) {
    vk_reach!();
    let mut l = 0;
    while l < NCLASS {
        if l != k {
            let mut sa = 0;
            while sa < subs(k) { let mut sb = 0; while sb < subs(l) {
                let a = mk(k, sa == 1, 1); let b = mk(l, sb == 1, 1);
                let a0 = mk(k, sa == 0, 0); let b0 = mk(l, sb == 0, 0);   // second sample: other member kind, other payload, other length
                let ab = c(&a, &b);
                let ok = ab == c(&a0, &b0) && ab != Ordering::Equal && c(&b, &a) == ab.reverse();
                std::mem::forget(a); std::mem::forget(b); std::mem::forget(a0); std::mem::forget(b0);
                vk_check!(ok, "X: cross-class order is payload independent, strict and antisymmetric");
                sb += 1; } sa += 1; }
        }
        l += 1;
    }
}
macro_rules! class_harnesses {
    ($k:expr, $w:ident, $x:ident) => {
        #[cfg_attr(kani, kani::proof)] #[cfg_attr(kani, kani::unwind(10))]
        pub fn $w() { within($k); }
        #[cfg_attr(kani, kani::proof)] #[cfg_attr(kani, kani::unwind(10))]
        pub fn $x() { cross($k); }
    };
}
class_harnesses!(0, within_none, cross_none);
class_harnesses!(1, within_null, cross_null);
class_harnesses!(2, within_bool, cross_bool);
class_harnesses!(3, within_int32, cross_int32);
class_harnesses!(4, within_num, cross_num);
macro_rules! num_mix { ($n:ident, $a:expr, $b:expr, $c:expr) => {
    #[cfg_attr(kani, kani::proof)] #[cfg_attr(kani, kani::unwind(2))]
    pub fn $n() { vk_reach!(); laws3(mk(4, $a, 0), mk(4, $b, 0), mk(4, $c, 0)); } }; }
num_mix!(within_num_fff, false, false, false);
num_mix!(within_num_iff, true, false, false);
num_mix!(within_num_fif, false, true, false);
num_mix!(within_num_ffi, false, false, true);
num_mix!(within_num_iif, true, true, false);
num_mix!(within_num_ifi, true, false, true);
num_mix!(within_num_fii, false, true, true);
class_harnesses!(5, within_string, cross_string);
class_harnesses!(6, within_timestamp, cross_timestamp);
class_harnesses!(7, within_vec, cross_vec);
class_harnesses!(8, within_bytes, cross_bytes);
//@harness within_none      :: carries :: full :: R,A,T on absent columns
//@harness within_null      :: carries :: full :: R,A,T on Null
//@harness within_bool      :: carries :: full :: R,A,T on every triple of Bool
//@harness within_int32     :: carries :: full :: R,A,T on every triple of Int32
//@harness within_num       :: carries :: full :: R,A,T on every triple of Int64
//@harness within_num_fff   :: carries :: full :: timeout=900 :: R,A,T on every triple of Float64 bit patterns
//@harness within_num_iff   :: carries :: full :: timeout=900 :: R,A,T on (Int64, Float64, Float64), all payloads
//@harness within_num_fif   :: carries :: full :: timeout=900 :: R,A,T on (Float64, Int64, Float64), all payloads
//@harness within_num_ffi   :: carries :: full :: timeout=900 :: R,A,T on (Float64, Float64, Int64), all payloads
//@harness within_num_iif   :: carries :: full :: timeout=900 :: R,A,T on (Int64, Int64, Float64), all payloads
//@harness within_num_ifi   :: carries :: full :: timeout=900 :: R,A,T on (Int64, Float64, Int64), all payloads
//@harness within_num_fii   :: carries :: full :: timeout=900 :: R,A,T on (Float64, Int64, Int64), all payloads
//@harness within_string    :: carries :: bounded(len<=1, 7-bit bytes) :: R,A,T on strings
//@harness within_timestamp :: carries :: full :: R,A,T on every triple of Timestamp
//@harness within_vec       :: carries :: bounded(len<=1) :: R,A,T on Vector/VectorInt8 in every mix
//@harness within_bytes     :: carries :: bounded(len<=1) :: R,A,T on Bytes
//@harness cross_none       :: carries :: full(scalars) bounded(heap len<=1) :: X for absent vs every other class
//@harness cross_null       :: carries :: full(scalars) bounded(heap len<=1) :: X for Null vs every other class
//@harness cross_bool       :: carries :: full(scalars) bounded(heap len<=1) :: X for Bool vs every other class
//@harness cross_int32      :: carries :: full(scalars) bounded(heap len<=1) :: X for Int32 vs every other class
//@harness cross_num        :: carries :: full(scalars) bounded(heap len<=1) :: X for Int64/Float64 vs every other class
//@harness cross_string     :: carries :: full(scalars) bounded(heap len<=1) :: X for String vs every other class
//@harness cross_timestamp  :: carries :: full(scalars) bounded(heap len<=1) :: X for Timestamp vs every other class
//@harness cross_vec        :: carries :: full(scalars) bounded(heap len<=1) :: X for Vector/VectorInt8 vs every other class
//@harness cross_bytes      :: carries :: full(scalars) bounded(heap len<=1) :: X for Bytes vs every other class

//@harness class_table :: carries :: full :: TT the class table (one representative per class) is a strict total order
#[cfg_attr(kani, kani::proof)] #[cfg_attr(kani, kani::unwind(11))]
pub fn class_table() {
    vk_reach!();
    let reps = [None, Some(WireValue::Null), Some(WireValue::Bool(false)), Some(WireValue::Int32(0)), Some(WireValue::Int64(0)),
                mk(5, true, 0), Some(WireValue::Timestamp(0)), mk(7, true, 0), mk(8, true, 0)];
    let mut t = [[Ordering::Equal; NCLASS]; NCLASS];
    let mut i = 0;
    while i < NCLASS { let mut j = 0; while j < NCLASS { t[i][j] = c(&reps[i], &reps[j]); j += 1; } i += 1; }
    std::mem::forget(reps);
    let mut ok = true;
    let mut i = 0;
    while i < NCLASS { let mut j = 0; while j < NCLASS { let mut k = 0;
        if (i == j) != (t[i][j] == Ordering::Equal) { ok = false; }
        if t[j][i] != t[i][j].reverse() { ok = false; }
        while k < NCLASS { if le(t[i][j]) && le(t[j][k]) && !le(t[i][k]) { ok = false; } k += 1; }
        j += 1; } i += 1; }
    vk_check!(ok, "TT: class table is a strict total order");
}

#[cfg(all(test, not(kani)))]
pub const HARNESSES: &[(&str, fn())] = &[
    ("within_none", within_none), ("within_null", within_null), ("within_bool", within_bool), ("within_int32", within_int32),
    ("within_num", within_num), ("within_num_fff", within_num_fff), ("within_num_iff", within_num_iff), ("within_num_fif", within_num_fif),
    ("within_num_ffi", within_num_ffi), ("within_num_iif", within_num_iif), ("within_num_ifi", within_num_ifi), ("within_num_fii", within_num_fii),
("within_string", within_string), ("within_timestamp", within_timestamp),
    ("within_vec", within_vec), ("within_bytes", within_bytes),
    ("cross_none", cross_none), ("cross_null", cross_null), ("cross_bool", cross_bool), ("cross_int32", cross_int32),
    ("cross_num", cross_num), ("cross_string", cross_string), ("cross_timestamp", cross_timestamp),
    ("cross_vec", cross_vec), ("cross_bytes", cross_bytes), ("class_table", class_table),
];
#[cfg(all(test, not(kani)))]
#[test]
fn verif_replay() {
    if let Some(name) = vk::load_replay() {
        let f = HARNESSES.iter().find(|(n, _)| *n == name).expect("unknown harness").1;
        f();
    }
}
