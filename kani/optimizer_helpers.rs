// C05 — index-remapping helpers of the optimizer, on the real code (child module of src/optimizer/mod.rs).
// These are the contracts the Verus unit verus/pushdown.spec ASSUMES for the two predicate helpers
// (external_body there, discharged here), plus the Join -> JoinFlatMap projection remap.
//
//  adjust_predicate_columns(p, off): same variant, constants unchanged, every column c becomes c + off
//  get_predicate_columns(p):         exactly the columns the predicate reads, in syntactic order
//  remap_projection_for_join_flatmap(proj, lw, keys): an index into the Join output (left ++ right non-key
//      columns) is mapped to the index of THE SAME column in the JoinFlatMap concat space (left ++ all right)
use super::*;
include!("/verif/kani/common.rs");

const NV: usize = 26;
/// scalar comparison variant v (concrete) over symbolic columns / constants
fn mk(v: usize, c1: usize, c2: usize, k: i64, f: f64, b: bool) -> Predicate {
    match v {
        0 => Predicate::ColumnEqConst(c1, k), 1 => Predicate::ColumnNeConst(c1, k), 2 => Predicate::ColumnGtConst(c1, k),
        3 => Predicate::ColumnLtConst(c1, k), 4 => Predicate::ColumnGeConst(c1, k), 5 => Predicate::ColumnLeConst(c1, k),
        6 => Predicate::ColumnEqStr(c1, String::new()), 7 => Predicate::ColumnNeStr(c1, String::new()),
        8 => Predicate::ColumnLtStr(c1, String::new()), 9 => Predicate::ColumnGtStr(c1, String::new()),
        10 => Predicate::ColumnLeStr(c1, String::new()), 11 => Predicate::ColumnGeStr(c1, String::new()),
        12 => Predicate::ColumnEqBool(c1, b), 13 => Predicate::ColumnNeBool(c1, b),
        14 => Predicate::ColumnEqFloat(c1, f), 15 => Predicate::ColumnNeFloat(c1, f), 16 => Predicate::ColumnGtFloat(c1, f),
        17 => Predicate::ColumnLtFloat(c1, f), 18 => Predicate::ColumnGeFloat(c1, f), 19 => Predicate::ColumnLeFloat(c1, f),
        20 => Predicate::ColumnsEq(c1, c2), 21 => Predicate::ColumnsNe(c1, c2), 22 => Predicate::ColumnsLt(c1, c2),
        23 => Predicate::ColumnsGt(c1, c2), 24 => Predicate::ColumnsLe(c1, c2), _ => Predicate::ColumnsGe(c1, c2),
    }
}
fn two_cols(v: usize) -> bool { v >= 20 }

fn adjust_variant(v: usize) {
    let c1 = vk::usize(); let c2 = vk::usize(); let off = vk::i32();
    let k = vk::i64(); let f = vk::f64(); let b = vk::bool();
    // domain of the helper: columns fit i32 and stay non-negative after the shift (call sites: off = -left_width <= 0 <= c - left_width)
    vk::assume(c1 < 0x4000_0000 && c2 < 0x4000_0000 && off > -0x4000_0000 && off < 0x4000_0000);
    vk::assume(c1 as i64 + off as i64 >= 0 && c2 as i64 + off as i64 >= 0);
    vk::assume(!f.is_nan());
    vk_reach!();
    let p = mk(v, c1, c2, k, f, b);
    let q = Optimizer::adjust_predicate_columns(&p, off);
    let want = mk(v, (c1 as i64 + off as i64) as usize, (c2 as i64 + off as i64) as usize, k, f, b);
    let same = q == want;
    let cols_q = Optimizer::get_predicate_columns(&q);
    let cols_p = Optimizer::get_predicate_columns(&p);
    let n = if two_cols(v) { 2 } else { 1 };
    let cols_ok = cols_p.len() == n && cols_q.len() == n && cols_p[0] == c1 && cols_q[0] as i64 == c1 as i64 + off as i64
        && (!two_cols(v) || (cols_p[1] == c2 && cols_q[1] as i64 == c2 as i64 + off as i64));
    std::mem::forget(p); std::mem::forget(q); std::mem::forget(want); std::mem::forget(cols_q); std::mem::forget(cols_p);
    vk_check!(same, "ADJ: adjust_predicate_columns keeps the variant and constants and shifts every column by the offset");
    vk_check!(cols_ok, "COLS: get_predicate_columns returns exactly the referenced columns, and they are shifted by the offset after adjust");
}
macro_rules! adj { ($n:ident, $lo:expr, $hi:expr) => {
    #[cfg_attr(kani, kani::proof)] #[cfg_attr(kani, kani::unwind(10))]
    pub fn $n() { let mut v = $lo; while v < $hi { adjust_variant(v); v += 1; } } }; }
//@harness adjust_int_consts   :: carries :: full :: adjust/get columns on the six Column?Const variants, every column/offset/constant in range
//@harness adjust_str_consts   :: carries :: bounded(empty string constant) :: adjust/get columns on the six Column?Str variants
//@harness adjust_bool_float   :: carries :: full :: adjust/get columns on the Bool and Float constant variants (non-NaN constants)
//@harness adjust_two_columns  :: carries :: full :: adjust/get columns on the six Columns?? variants (both columns shifted)
adj!(adjust_int_consts, 0, 6);
adj!(adjust_str_consts, 6, 12);
adj!(adjust_bool_float, 12, 20);
adj!(adjust_two_columns, 20, 26);

// And/Or (recursive arms): CBMC does not finish even at depth 1 (recursion sites multiply); not covered.

// ---- remap_projection_for_join_flatmap against the layout contract between Join and JoinFlatMap
const RW: usize = 4; // right arity bound
/// index (in the right input) of the p-th column that is not a join key — the Join output layout
fn nth_nonkey(keys: &[usize], p: usize) -> Option<usize> {
    let mut seen = 0; let mut c = 0;
    while c < RW {
        let mut is_key = false; let mut j = 0;
        while j < keys.len() { if keys[j] == c { is_key = true; } j += 1; }
        if !is_key { if seen == p { return Some(c); } seen += 1; }
        c += 1;
    }
    None
}
fn remap_case(nkeys: usize) {
    let lw = vk::usize(); vk::assume(lw <= 3);
    let k0 = vk::usize(); let k1 = vk::usize();
    vk::assume(k0 < RW && k1 < RW && k0 != k1);
    let keys_arr = [k0, k1];
    let keys = &keys_arr[..nkeys];
    let idx = vk::usize(); vk::assume(idx < lw + RW - nkeys);   // a valid position in the Join output
    vk_reach!();
    let out = Optimizer::remap_projection_for_join_flatmap(&[idx], lw, keys);
    let want = if idx < lw { Some(idx) } else { nth_nonkey(keys, idx - lw).map(|c| lw + c) };
    let ok = out.len() == 1 && want == Some(out[0]);
    std::mem::forget(out);
    vk_check!(ok, "REMAP: a Join-output index maps to the same column in the JoinFlatMap concat space (left ++ all right columns)");
}
//@harness remap_no_keys  :: carries :: bounded(left<=3, right arity 4, 1 projected index) :: cartesian join: identity
//@harness remap_one_key  :: carries :: bounded(left<=3, right arity 4, 1 projected index) :: one right key at any position
//@harness remap_two_keys :: carries :: bounded(left<=3, right arity 4, 1 projected index) :: two distinct right keys in any order (the function sorts them)
#[cfg_attr(kani, kani::proof)] #[cfg_attr(kani, kani::unwind(6))]
pub fn remap_no_keys() { remap_case(0); }
#[cfg_attr(kani, kani::proof)] #[cfg_attr(kani, kani::unwind(6))]
pub fn remap_one_key() { remap_case(1); }
#[cfg_attr(kani, kani::proof)] #[cfg_attr(kani, kani::unwind(6))]
pub fn remap_two_keys() { remap_case(2); }

#[cfg(all(test, not(kani)))]
pub const HARNESSES: &[(&str, fn())] = &[
    ("adjust_int_consts", adjust_int_consts), ("adjust_str_consts", adjust_str_consts), ("adjust_bool_float", adjust_bool_float),
    ("adjust_two_columns", adjust_two_columns),
    ("remap_no_keys", remap_no_keys), ("remap_one_key", remap_one_key), ("remap_two_keys", remap_two_keys),
];
#[cfg(all(test, not(kani)))]
#[test]
fn verif_replay() {
    if let Some(name) = vk::load_replay() {
        let f = HARNESSES.iter().find(|(n, _)| *n == name).expect("unknown harness").1;
        f();
    }
}
