// Second, "engineered" round of Kani probes (DESIGN §2): concrete enum kinds, explicit unwind,
// mem::forget of heap values, fmt stub. Each block was appended to the named source file of a scratch
// copy of /repo and run with `CARGO_NET_OFFLINE=true cargo kani [-Z stubbing] --harness <name>`.
// Measured solver times are in the comments. Not machinery; kept as starting points for /verif/kani/*.

// ===== appended to src/protocol/handler.rs =====
#[cfg(kani)]
mod kprobe {
    use super::*;
    // SUCCESS 0.45 s
    #[kani::proof]
    #[kani::unwind(2)]
    fn q2_wire_int_float_antisym() {
        let a = WireValue::Int64(kani::any()); let b = WireValue::Float64(kani::any());
        let r = compare_wire_values(Some(&a), Some(&b)) == compare_wire_values(Some(&b), Some(&a)).reverse();
        std::mem::forget(a); std::mem::forget(b);
        assert!(r);
    }
    // FAILED 0.3 s (NaN) -- genuine defect C35
    #[kani::proof]
    #[kani::unwind(2)]
    fn q2_wire_float_float_eq_consistent() {
        let x: f64 = kani::any(); let y: f64 = kani::any();
        let a = WireValue::Float64(x); let b = WireValue::Float64(y);
        let c = compare_wire_values(Some(&a), Some(&b));
        std::mem::forget(a); std::mem::forget(b);
        assert!(c == x.total_cmp(&y));
    }
    // q13_pagination (3 concrete WireTuple rows, symbolic limit/offset): CBMC out of memory -- dropped
}

// ===== appended to src/optimizer/mod.rs =====
#[cfg(kani)]
mod kprobe {
    use super::*;
    // SUCCESS 1.2 s
    #[kani::proof]
    #[kani::unwind(6)]
    fn q12_remap_projection() {
        let lw: usize = 2;
        let k: usize = kani::any(); kani::assume(k < 3);
        let idx: usize = kani::any(); kani::assume(idx < lw + 2);
        let out = Optimizer::remap_projection_for_join_flatmap(&[idx], lw, &[k]);
        // right arity 3, key column k excluded from join output
        let expect = if idx < lw { idx } else { let p = idx - lw; lw + if p >= k { p + 1 } else { p } };
        assert!(out.len() == 1 && out[0] == expect);
    }
    // SUCCESS 2.1 s
    #[kani::proof]
    #[kani::unwind(3)]
    fn r15_adjust_predicate_scalar() {
        let col: usize = kani::any(); kani::assume(col < 1000);
        let k: usize = kani::any(); kani::assume(k <= col);
        let c: i64 = kani::any();
        let q = Optimizer::adjust_predicate_columns(&Predicate::ColumnGtConst(col, c), -(k as i32));
        let ok = matches!(q, Predicate::ColumnGtConst(n, v) if n == col - k && v == c);
        std::mem::forget(q);
        assert!(ok);
    }
    // r11_pushdown_right_column_mapping (pushdown_filters on one concrete Filter(Join(Scan,Scan))):
    // no result; stopped at 20-34 GB -- optimizer passes are out of CBMC's reach (done in Verus instead)
}

// ===== appended to src/code_generator/mod.rs =====
#[cfg(kani)]
mod kprobe2 {
    use super::*;
    // FAILED ~60 s -- genuine defect C03 (Aggregate is partitioned)
    #[kani::proof]
    #[kani::unwind(3)]
    fn r5_single_tree_aggregate_over_scan() {
        let ir = IRNode::Aggregate { input: Box::new(IRNode::Scan { relation: String::new(), schema: Vec::new() }), group_by: Vec::new(), aggregations: Vec::new(), output_schema: Vec::new() };
        let r = CodeGenerator::contains_join(&ir);
        std::mem::forget(ir);
        assert!(r);
    }
    // SUCCESS ~65 s
    #[kani::proof]
    #[kani::unwind(3)]
    fn r5_single_tree_map_over_join() {
        let s = || IRNode::Scan { relation: String::new(), schema: Vec::new() };
        let ir = IRNode::Map { input: Box::new(IRNode::Join { left: Box::new(s()), right: Box::new(s()), left_keys: Vec::new(), right_keys: Vec::new(), output_schema: Vec::new() }), projection: Vec::new(), output_schema: Vec::new() };
        let r = CodeGenerator::contains_join(&ir);
        std::mem::forget(ir);
        assert!(r);
    }
}

// ===== appended to src/value/mod.rs =====
#[cfg(kani)]
mod kprobe3 {
    use super::*;
    // FAILED 1.5 s -- genuine defect C31 (Vector: == is IEEE, cmp/hash are bitwise)
    #[kani::proof]
    #[kani::unwind(4)]
    fn r16_vector_cmp_eq_consistent_len2() {
        let a = Value::Vector(Arc::new(vec![kani::any(), kani::any()]));
        let b = Value::Vector(Arc::new(vec![kani::any(), kani::any()]));
        let r = (a.cmp(&b) == Ordering::Equal) == (a == b);
        std::mem::forget(a); std::mem::forget(b);
        assert!(r);
    }
    // SUCCESS 0.9 s
    #[kani::proof]
    #[kani::unwind(4)]
    fn r16_tuple_cmp_lex_len2() {
        let x0: i64 = kani::any(); let x1: i64 = kani::any(); let y0: i64 = kani::any(); let y1: i64 = kani::any();
        let a = Tuple::new(vec![Value::Int64(x0), Value::Int64(x1)]);
        let b = Tuple::new(vec![Value::Int64(y0), Value::Int64(y1)]);
        let r = a.cmp(&b) == (x0, x1).cmp(&(y0, y1));
        let e = (a == b) == ((x0, x1) == (y0, y1));
        std::mem::forget(a); std::mem::forget(b);
        assert!(r && e);
    }
    // FAILED 0.2 s -- genuine defect C12 (kind changes through the Int64 column accessor)
    #[kani::proof]
    fn r17_timestamp_in_int64_column_changes_kind() {
        let t: i64 = kani::any();
        let v = Value::Timestamp(t);
        let stored = v.as_i64();            // accessor build_column_array uses for DataType::Int64
        let back = stored.map(Value::Int64); // what extract_value_from_array yields for an Int64Array
        assert!(back == Some(v));
    }
    // first round, both < 0.2 s: Value::Int32 pair cmp/eq consistent SUCCESS; Value::Float64 pair FAILED (C31)
}

// ===== appended to src/vector_ops.rs =====
#[cfg(kani)]
mod kprobe {
    use super::*;
    // SUCCESS 18 s
    #[kani::proof]
    #[kani::unwind(3)]
    fn q7_cosine_dim1_range() {
        let a: [f32; 1] = [kani::any()]; let b: [f32; 1] = [kani::any()];
        kani::assume(a[0].is_finite() && b[0].is_finite());
        kani::assume(a[0].abs() < 1.0e18 && b[0].abs() < 1.0e18);
        let d = cosine_distance(&a, &b);
        assert!(d >= 0.0 && d <= 2.0);
    }
    // SUCCESS 70 s
    #[kani::proof]
    #[kani::unwind(4)]
    fn q7_manhattan_dim2() {
        let a: [f32; 2] = [kani::any(), kani::any()]; let b: [f32; 2] = [kani::any(), kani::any()];
        kani::assume(a[0].is_finite() && a[1].is_finite() && b[0].is_finite() && b[1].is_finite());
        let d1 = manhattan_distance(&a, &b); let d2 = manhattan_distance(&b, &a);
        assert!(d1.to_bits() == d2.to_bits());
        assert!(!(d1 < 0.0));
    }
    // cosine range at dim 2 without the magnitude bound: FAILED 8 s (NaN) -- genuine defect C26
    // q7_euclid_dim1 (symmetry bit-for-bit + zero on identical): no result in 6 min
}

// ===== appended to src/schema/validator.rs =====  (needs -Z stubbing)
#[cfg(kani)]
mod kprobe {
    use super::*;
    use crate::schema::{ColumnSchema, SchemaType};
    use crate::value::Value;
    fn no_format(_a: std::fmt::Arguments<'_>) -> String { String::new() }
    // SUCCESS 56 s
    #[kani::proof]
    #[kani::unwind(4)]
    #[kani::stub(alloc::fmt::format, no_format)]
    fn q9_validate_int_col() {
        let schema = RelationSchema { name: String::new(), columns: vec![ColumnSchema { name: String::new(), data_type: SchemaType::Int }] };
        let v = if kani::any() { Value::Int64(kani::any()) } else { Value::Float64(kani::any()) };
        let is_int = matches!(v, Value::Int64(_));
        let t = Tuple::new(vec![v]);
        let mut e = ValidationEngine::new();
        let ok = e.validate_batch(&schema, std::slice::from_ref(&t)).is_ok();
        std::mem::forget(t); std::mem::forget(schema);
        assert!(ok == is_int);
    }
}

// Units that crash the Kani compiler (intrinsics.rs:243) and are therefore out:
//   src/provenance/unification.rs (tracing::debug!), src/hnsw_index.rs (parking_lot::RwLock)
// Units on which CBMC gives no result: src/derived_relations.rs, src/hash_index.rs (HashMap<String,..>)
