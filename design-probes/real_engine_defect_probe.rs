use inputlayer::{IQLEngine, OptimizationConfig};
use inputlayer::value::{Tuple, Value};
fn t(v: &[i64]) -> Tuple { Tuple::new(v.iter().map(|x| Value::Int64(*x)).collect()) }
fn main() {
    for jp in [false, true] {
        let mut cfg = OptimizationConfig::default();
        cfg.enable_join_planning = jp; cfg.enable_sip_rewriting = false; cfg.enable_subplan_sharing = false; cfg.enable_boolean_specialization = false; cfg.enable_magic_sets = false;
        let mut e = IQLEngine::with_config(cfg);
        e.add_tuples("a", vec![t(&[1, 10]), t(&[2, 3])]);
        e.add_tuples("b", vec![t(&[10, 1]), t(&[3, 9])]);
        let r = e.execute_tuples("q(X,Z) <- a(X,Y), b(Y,Z), Z > 5");
        println!("jp={} pushdown: {:?}", jp, r);
        for ir in e.ir_nodes() { println!("{}", ir.pretty_print(0)); }
    }
    for w in [1usize, 2, 4] {
        let mut e = IQLEngine::new();
        e.set_num_workers(w);
        e.add_tuples("d", (0..10).map(|i| t(&[i % 2, i])).collect());
        let r = e.execute_tuples("c(G, count<V>) <- d(G, V)");
        println!("workers={} agg: {:?}", w, r);
    }
}
