use vstd::prelude::*;
verus! {

pub struct W { pub l: int, pub a: int, pub b: int, pub c: int }

pub open spec fn sh(a: int) -> i64 { 1i64 << (a as u64) }
pub open spec fn maskof(w: W) -> i64 {
    if w.l == 0 { 0i64 } else if w.l == 1 { sh(w.a) } else if w.l == 2 { sh(w.a) ^ sh(w.b) } else { sh(w.a) ^ sh(w.b) ^ sh(w.c) }
}
pub open spec fn valid(w: W, nb: int) -> bool {
    ||| w.l == 0 && w.a == 0 && w.b == 0 && w.c == 0
    ||| w.l == 1 && 0 <= w.a < nb && w.b == 0 && w.c == 0
    ||| w.l == 2 && 0 <= w.a < w.b < nb && w.c == 0
    ||| w.l == 3 && 0 <= w.a < w.b < w.c < nb
}
pub open spec fn lex_lt(x: W, y: W) -> bool {
    x.l < y.l || (x.l == y.l && (x.a < y.a || (x.a == y.a && (x.b < y.b || (x.b == y.b && x.c < y.c)))))
}
/// the probe sequence is: bucket, then single-bit flips, then two-bit flips, then three-bit flips,
/// each class in strictly increasing order of flipped positions
pub open spec fn wit_ok(r: Seq<i64>, bucket: i64, nb: int, w: Seq<W>) -> bool {
    &&& w.len() == r.len()
    &&& forall|t: int| 0 <= t < r.len() ==> valid(#[trigger] w[t], nb) && r[t] == bucket ^ maskof(w[t])
    &&& forall|s: int, t: int| 0 <= s < t < r.len() ==> lex_lt(#[trigger] w[s], #[trigger] w[t])
}

proof fn l0(a: u64) requires a < 62 ensures (1i64 << a) != 0
{ assert((1i64 << a) != 0) by (bit_vector) requires a < 62; }
proof fn l1(a: u64, b: u64) requires a < 62, b < 62, a != b ensures (1i64 << a) != (1i64 << b)
{ assert((1i64 << a) != (1i64 << b)) by (bit_vector) requires a < 62, b < 62, a != b; }
proof fn l2(a: u64, b: u64, c: u64, d: u64) requires a < b, b < 62, c < d, d < 62, !(a == c && b == d)
  ensures ((1i64 << a) ^ (1i64 << b)) != ((1i64 << c) ^ (1i64 << d))
{ assert(((1i64 << a) ^ (1i64 << b)) != ((1i64 << c) ^ (1i64 << d))) by (bit_vector) requires a < b, b < 62, c < d, d < 62, !(a == c && b == d); }
proof fn l12(a: u64, c: u64, d: u64) requires a < 62, c < d, d < 62
  ensures (1i64 << a) != ((1i64 << c) ^ (1i64 << d)), ((1i64 << c) ^ (1i64 << d)) != 0
{ assert((1i64 << a) != ((1i64 << c) ^ (1i64 << d))) by (bit_vector) requires a < 62, c < d, d < 62;
  assert(((1i64 << c) ^ (1i64 << d)) != 0) by (bit_vector) requires c < d, d < 62; }
proof fn l3(a: u64, b: u64, c: u64, d: u64, e: u64, f: u64) requires a < b, b < c, c < 62, d < e, e < f, f < 62, !(a == d && b == e && c == f)
  ensures ((1i64 << a) ^ (1i64 << b) ^ (1i64 << c)) != ((1i64 << d) ^ (1i64 << e) ^ (1i64 << f))
{ assert(((1i64 << a) ^ (1i64 << b) ^ (1i64 << c)) != ((1i64 << d) ^ (1i64 << e) ^ (1i64 << f))) by (bit_vector) requires a < b, b < c, c < 62, d < e, e < f, f < 62, !(a == d && b == e && c == f); }
proof fn l3x(a: u64, d: u64, e: u64, f: u64) requires a < 62, d < e, e < f, f < 62
  ensures (1i64 << a) != ((1i64 << d) ^ (1i64 << e) ^ (1i64 << f)), ((1i64 << d) ^ (1i64 << e) ^ (1i64 << f)) != 0
{ assert((1i64 << a) != ((1i64 << d) ^ (1i64 << e) ^ (1i64 << f))) by (bit_vector) requires a < 62, d < e, e < f, f < 62;
  assert(((1i64 << d) ^ (1i64 << e) ^ (1i64 << f)) != 0) by (bit_vector) requires d < e, e < f, f < 62; }
proof fn l23(a: u64, b: u64, d: u64, e: u64, f: u64) requires a < b, b < 62, d < e, e < f, f < 62
  ensures ((1i64 << a) ^ (1i64 << b)) != ((1i64 << d) ^ (1i64 << e) ^ (1i64 << f))
{ assert(((1i64 << a) ^ (1i64 << b)) != ((1i64 << d) ^ (1i64 << e) ^ (1i64 << f))) by (bit_vector) requires a < b, b < 62, d < e, e < f, f < 62; }
proof fn lx(x: i64, m: i64, n: i64) requires m != n ensures (x ^ m) != (x ^ n)
{ assert((x ^ m) != (x ^ n)) by (bit_vector) requires m != n; }
proof fn lx0(x: i64) ensures (x ^ 0i64) == x
{ assert((x ^ 0i64) == x) by (bit_vector); }

/// distinct witnesses give distinct masks
proof fn lemma_mask_inj(x: W, y: W, nb: int)
    requires valid(x, nb), valid(y, nb), nb <= 62, lex_lt(x, y)
    ensures maskof(x) != maskof(y)
{
    if x.l == 0 {
        if y.l == 1 { l0(y.a as u64); } else if y.l == 2 { l12(0, y.a as u64, y.b as u64); } else { l3x(0, y.a as u64, y.b as u64, y.c as u64); }
    } else if x.l == 1 {
        if y.l == 1 { l1(x.a as u64, y.a as u64); } else if y.l == 2 { l12(x.a as u64, y.a as u64, y.b as u64); } else { l3x(x.a as u64, y.a as u64, y.b as u64, y.c as u64); }
    } else if x.l == 2 {
        if y.l == 2 { l2(x.a as u64, x.b as u64, y.a as u64, y.b as u64); } else { l23(x.a as u64, x.b as u64, y.a as u64, y.b as u64, y.c as u64); }
    } else {
        l3(x.a as u64, x.b as u64, x.c as u64, y.a as u64, y.b as u64, y.c as u64);
    }
}

/// what the witness gives the user: pairwise distinct probes, flip count never decreases
pub proof fn lemma_wit_consequences(r: Seq<i64>, bucket: i64, nb: int, w: Seq<W>)
    requires wit_ok(r, bucket, nb, w), nb <= 62
    ensures
        forall|s: int, t: int| 0 <= s < t < r.len() ==> r[s] != r[t],
        forall|s: int, t: int| 0 <= s < t < r.len() ==> w[s].l <= w[t].l,
{
    assert forall|s: int, t: int| 0 <= s < t < r.len() implies r[s] != r[t] by {
        lemma_mask_inj(w[s], w[t], nb);
        lx(bucket, maskof(w[s]), maskof(w[t]));
    }
}

pub open spec fn nbits(num_hyperplanes: usize) -> int { if num_hyperplanes < 62 { num_hyperplanes as int } else { 62 } }

pub fn lsh_probes(bucket: i64, num_hyperplanes: usize, num_probes: usize) -> (r: Vec<i64>)
    ensures
        r.len() <= num_probes,
        num_probes > 0 ==> r.len() >= 1 && r[0] == bucket,
        exists|w: Seq<W>| #[trigger] wit_ok(r@, bucket, nbits(num_hyperplanes), w),
{
    if num_probes == 0 {
        proof { assert(wit_ok(Seq::<i64>::empty(), bucket, nbits(num_hyperplanes), Seq::<W>::empty())); }
        return Vec::new();
    }

    let num_bits = num_hyperplanes.min(62);
    let mut probes = Vec::with_capacity(num_probes);
    probes.push(bucket);
    let ghost nb = num_bits as int;
    assert(nb == nbits(num_hyperplanes));
    let ghost mut w: Seq<W> = seq![W { l: 0, a: 0, b: 0, c: 0 }];
    proof { lx0(bucket); assert(wit_ok(probes@, bucket, nb, w)); }

    if probes.len() >= num_probes {
        return probes;
    }

    // Add Hamming distance 1 probes (single bit flips)
    for bit in 0..num_bits
        invariant
            nb == num_bits, nb == nbits(num_hyperplanes), num_bits <= 62, probes.len() >= 1, probes[0] == bucket, probes.len() <= num_probes,
            wit_ok(probes@, bucket, nb, w),
            forall|t: int| 0 <= t < w.len() ==> lex_lt(#[trigger] w[t], W { l: 1, a: bit as int, b: 0, c: 0 }),
    {
        if probes.len() >= num_probes {
            return probes;
        }
        probes.push(bucket ^ (1i64 << bit));
        proof {
            let nw = W { l: 1, a: bit as int, b: 0, c: 0 };
            assert((1i64 << bit) == sh(bit as int));
            w = w.push(nw);
            assert(wit_ok(probes@, bucket, nb, w));
        }
    }

    // Add Hamming distance 2 probes (two bit flips)
    for i in 0..num_bits
        invariant
            nb == num_bits, nb == nbits(num_hyperplanes), num_bits <= 62, probes.len() >= 1, probes[0] == bucket, probes.len() <= num_probes,
            wit_ok(probes@, bucket, nb, w),
            forall|t: int| 0 <= t < w.len() ==> lex_lt(#[trigger] w[t], W { l: 2, a: i as int, b: 0, c: 0 }),
    {
        for j in (i + 1)..num_bits
            invariant
                nb == num_bits, nb == nbits(num_hyperplanes), num_bits <= 62, probes.len() >= 1, probes[0] == bucket, probes.len() <= num_probes, i < num_bits,
                wit_ok(probes@, bucket, nb, w),
                forall|t: int| 0 <= t < w.len() ==> lex_lt(#[trigger] w[t], W { l: 2, a: i as int, b: j as int, c: 0 }),
        {
            if probes.len() >= num_probes {
                return probes;
            }
            probes.push(bucket ^ (1i64 << i) ^ (1i64 << j));
            proof {
                let nw = W { l: 2, a: i as int, b: j as int, c: 0 };
                assert((1i64 << i) == sh(i as int) && (1i64 << j) == sh(j as int));
                assert((bucket ^ sh(i as int) ^ sh(j as int)) == (bucket ^ (sh(i as int) ^ sh(j as int)))) by (bit_vector);
                w = w.push(nw);
                assert(wit_ok(probes@, bucket, nb, w));
            }
        }
    }

    // Add Hamming distance 3 probes if needed (rarely used but included for completeness)
    for i in 0..num_bits
        invariant
            nb == num_bits, nb == nbits(num_hyperplanes), num_bits <= 62, probes.len() >= 1, probes[0] == bucket, probes.len() <= num_probes,
            wit_ok(probes@, bucket, nb, w),
            forall|t: int| 0 <= t < w.len() ==> lex_lt(#[trigger] w[t], W { l: 3, a: i as int, b: 0, c: 0 }),
    {
        for j in (i + 1)..num_bits
            invariant
                nb == num_bits, nb == nbits(num_hyperplanes), num_bits <= 62, probes.len() >= 1, probes[0] == bucket, probes.len() <= num_probes, i < num_bits,
                wit_ok(probes@, bucket, nb, w),
                forall|t: int| 0 <= t < w.len() ==> lex_lt(#[trigger] w[t], W { l: 3, a: i as int, b: j as int, c: 0 }),
        {
            for k in (j + 1)..num_bits
                invariant
                    nb == num_bits, nb == nbits(num_hyperplanes), num_bits <= 62, probes.len() >= 1, probes[0] == bucket, probes.len() <= num_probes, i < j, j < num_bits,
                    wit_ok(probes@, bucket, nb, w),
                    forall|t: int| 0 <= t < w.len() ==> lex_lt(#[trigger] w[t], W { l: 3, a: i as int, b: j as int, c: k as int }),
            {
                if probes.len() >= num_probes {
                    return probes;
                }
                probes.push(bucket ^ (1i64 << i) ^ (1i64 << j) ^ (1i64 << k));
                proof {
                    let nw = W { l: 3, a: i as int, b: j as int, c: k as int };
                    assert((1i64 << i) == sh(i as int) && (1i64 << j) == sh(j as int) && (1i64 << k) == sh(k as int));
                    assert((bucket ^ sh(i as int) ^ sh(j as int) ^ sh(k as int)) == (bucket ^ (sh(i as int) ^ sh(j as int) ^ sh(k as int)))) by (bit_vector);
                    w = w.push(nw);
                    assert(wit_ok(probes@, bucket, nb, w));
                }
            }
        }
    }

    probes
}

}
fn main() {}
