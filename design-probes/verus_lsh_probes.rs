use vstd::prelude::*;
verus! {

pub fn lsh_probes(bucket: i64, num_hyperplanes: usize, num_probes: usize) -> (r: Vec<i64>)
    ensures r.len() <= num_probes, num_probes > 0 ==> (r.len() >= 1 && r[0] == bucket),
{
    if num_probes == 0 {
        return Vec::new();
    }

    let num_bits = num_hyperplanes.min(62);
    let mut probes = Vec::with_capacity(num_probes);
    probes.push(bucket);

    if probes.len() >= num_probes {
        return probes;
    }

    // Add Hamming distance 1 probes (single bit flips)
    for bit in 0..num_bits
        invariant probes.len() >= 1, probes[0] == bucket, probes.len() <= num_probes, num_bits <= 62,
    {
        if probes.len() >= num_probes {
            return probes;
        }
        probes.push(bucket ^ (1i64 << bit));
    }

    // Add Hamming distance 2 probes (two bit flips)
    for i in 0..num_bits
        invariant probes.len() >= 1, probes[0] == bucket, probes.len() <= num_probes, num_bits <= 62,
    {
        for j in (i + 1)..num_bits
            invariant probes.len() >= 1, probes[0] == bucket, probes.len() <= num_probes, num_bits <= 62, i < num_bits,
        {
            if probes.len() >= num_probes {
                return probes;
            }
            probes.push(bucket ^ (1i64 << i) ^ (1i64 << j));
        }
    }

    probes
}

}
fn main() {}
