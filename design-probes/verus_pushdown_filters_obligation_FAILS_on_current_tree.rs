use vstd::prelude::*;
verus! {
#[verifier::external_body] pub struct Predicate { _p: u8 }
#[verifier::external_body] pub struct AggregateFunction { _p: u8 }
#[verifier::external_body] pub struct IRExpression { _p: u8 }

pub enum IRNode {
    Scan {
        relation: String,
        schema: Vec<String>,
    },
    Map {
        input: Box<IRNode>,
        projection: Vec<usize>,
        output_schema: Vec<String>,
    },
    Filter {
        input: Box<IRNode>,
        predicate: Predicate,
    },
    Join {
        left: Box<IRNode>,
        right: Box<IRNode>,
        left_keys: Vec<usize>,
        right_keys: Vec<usize>,
        output_schema: Vec<String>,
    },
    Distinct {
        input: Box<IRNode>,
    },
    Union {
        inputs: Vec<IRNode>,
    },
    Aggregate {
        input: Box<IRNode>,
        group_by: Vec<usize>,
        aggregations: Vec<(AggregateFunction, usize)>,
        output_schema: Vec<String>,
    },
    Antijoin {
        left: Box<IRNode>,
        right: Box<IRNode>,
        left_keys: Vec<usize>,
        right_keys: Vec<usize>,
        output_schema: Vec<String>,
    },
    Compute {
        input: Box<IRNode>,
        expressions: Vec<(String, IRExpression)>,
    },
    HnswScan {
        index_name: String,
        query: IRExpression,
        k: usize,
        ef_search: Option<usize>,
        output_schema: Vec<String>,
    },
    FlatMap {
        input: Box<IRNode>,
        projection: Vec<usize>,
        filter_predicate: Option<Predicate>,
        output_schema: Vec<String>,
    },
    JoinFlatMap {
        left: Box<IRNode>,
        right: Box<IRNode>,
        left_keys: Vec<usize>,
        right_keys: Vec<usize>,
        projection: Vec<usize>,
        filter_predicate: Option<Predicate>,
        output_schema: Vec<String>,
    },
}

/// columns referenced by a predicate (abstract; Kani proves the two helper contracts below on the real code)
pub uninterp spec fn cols_of(p: &Predicate) -> Seq<usize>;

/// position in the RIGHT input of the p-th right column that survives into the join output
/// (the join output is: all left columns, then the right columns that are not join keys)
pub open spec fn is_key(keys: Seq<usize>, c: int) -> bool { exists|j: int| 0 <= j < keys.len() && keys[j] == c }
pub open spec fn nonkeys_before(keys: Seq<usize>, c: int) -> int
    decreases c
{ if c <= 0 { 0 } else { nonkeys_before(keys, c - 1) + if is_key(keys, c - 1) { 0int } else { 1int } } }
/// c is the right-input column shown at join-output position left_width + p
pub open spec fn shows_at(keys: Seq<usize>, c: int, p: int) -> bool { !is_key(keys, c) && nonkeys_before(keys, c) == p }

impl IRNode {
    #[verifier::external_body]
    pub fn output_schema(&self) -> (r: Vec<String>)
        ensures r.len() < 0x7fff_ffff
    { unimplemented!() }
}

pub struct Optimizer { max_iterations: usize }
impl Optimizer {
    #[verifier::external_body]
    fn get_predicate_columns(predicate: &Predicate) -> (r: Vec<usize>)
        ensures r@ == cols_of(predicate)
    { unimplemented!() }

    #[verifier::external_body]
    fn adjust_predicate_columns(predicate: &Predicate, offset: i32) -> (r: Predicate)
        ensures cols_of(&r).len() == cols_of(predicate).len(),
            forall|i: int| 0 <= i < cols_of(predicate).len() ==> cols_of(&r)[i] == ((cols_of(predicate)[i] as i32 + offset) as usize)
    { unimplemented!() }

    #[verifier::exec_allows_no_decreases_clause]
    fn pushdown_filters(&self, ir: IRNode) -> (r: IRNode)
    {
        match ir {
            IRNode::Filter { input, predicate } => {
                let optimized_input = self.pushdown_filters(*input);

                match optimized_input {
                    IRNode::Join {
                        left,
                        right,
                        left_keys,
                        right_keys,
                        output_schema,
                    } => {
                        let left_schema = left.output_schema();
                        let left_cols = left_schema.len();

                        // Analyze which side(s) the predicate references
                        let pred_cols = Self::get_predicate_columns(&predicate);
                        let refs_left = pred_cols.iter().any(|c| *c < left_cols);
                        let refs_right = pred_cols.iter().any(|c| *c >= left_cols);

                        if refs_left && !refs_right {
                            // Predicate only references left side - push down to left
                            IRNode::Join {
                                left: Box::new(IRNode::Filter {
                                    input: left,
                                    predicate,
                                }),
                                right,
                                left_keys,
                                right_keys,
                                output_schema,
                            }
                        } else if refs_right && !refs_left {
                            // Predicate only references right side - push down to right
                            // Need to adjust column indices
                            let adjusted_predicate =
                                Self::adjust_predicate_columns(&predicate, -(left_cols as i32));
                            proof {
                                // C05 obligation (program point): every right-part column c of the original
                                // predicate must be replaced by the right-input column that the join output
                                // shows at position c (join output = left columns ++ right non-key columns)
                                assert(forall|i: int| 0 <= i < cols_of(&predicate).len() && left_cols <= cols_of(&predicate)[i] < 0x7fff_ffff ==>
                                    shows_at(right_keys@, #[trigger] cols_of(&adjusted_predicate)[i] as int,
                                             cols_of(&predicate)[i] as int - left_cols as int));
                            }
                            IRNode::Join {
                                left,
                                right: Box::new(IRNode::Filter {
                                    input: right,
                                    predicate: adjusted_predicate,
                                }),
                                left_keys,
                                right_keys,
                                output_schema,
                            }
                        } else {
                            // Predicate references both sides - cannot push down
                            IRNode::Filter {
                                input: Box::new(IRNode::Join {
                                    left,
                                    right,
                                    left_keys,
                                    right_keys,
                                    output_schema,
                                }),
                                predicate,
                            }
                        }
                    }
                    other => IRNode::Filter {
                        input: Box::new(other),
                        predicate,
                    },
                }
            }

            IRNode::Map {
                input,
                projection,
                output_schema,
            } => IRNode::Map {
                input: Box::new(self.pushdown_filters(*input)),
                projection,
                output_schema,
            },

            IRNode::Join {
                left,
                right,
                left_keys,
                right_keys,
                output_schema,
            } => IRNode::Join {
                left: Box::new(self.pushdown_filters(*left)),
                right: Box::new(self.pushdown_filters(*right)),
                left_keys,
                right_keys,
                output_schema,
            },

            IRNode::Antijoin {
                left,
                right,
                left_keys,
                right_keys,
                output_schema,
            } => IRNode::Antijoin {
                left: Box::new(self.pushdown_filters(*left)),
                right: Box::new(self.pushdown_filters(*right)),
                left_keys,
                right_keys,
                output_schema,
            },

            IRNode::Distinct { input } => IRNode::Distinct {
                input: Box::new(self.pushdown_filters(*input)),
            },

            IRNode::Union { inputs } => IRNode::Union {
                inputs: inputs
                    .into_iter()
                    .map(|ir| self.pushdown_filters(ir))
                    .collect(),
            },

            IRNode::Aggregate {
                input,
                group_by,
                aggregations,
                output_schema,
            } => IRNode::Aggregate {
                input: Box::new(self.pushdown_filters(*input)),
                group_by,
                aggregations,
                output_schema,
            },

            IRNode::Compute { input, expressions } => IRNode::Compute {
                input: Box::new(self.pushdown_filters(*input)),
                expressions,
            },

            other => other,
        }
    }
}
}
fn main() {}
