use vstd::prelude::*;
verus! {

#[verifier::external_body]
#[verifier::accept_recursive_types]
pub struct Tuple { _p: u8 }

pub uninterp spec fn tview(t: &Tuple) -> int;   // abstract identity of a tuple (its equivalence class under ==)

#[verifier::external_body]
fn tuple_eq(a: &Tuple, b: &Tuple) -> (r: bool)
    ensures r == (tview(a) == tview(b))
{ unimplemented!() }

pub struct Update {
    pub data: Tuple,
    pub time: u64,
    pub diff: i64,
}

#[verifier::external_body]
fn update_clone(u: &Update) -> (r: Update)
    ensures tview(&r.data) == tview(&u.data), r.time == u.time, r.diff == u.diff
{ unimplemented!() }

pub open spec fn sum_for(s: Seq<Update>, k: int) -> int
    decreases s.len()
{
    if s.len() == 0 { 0 } else {
        sum_for(s.drop_last(), k) + if tview(&s.last().data) == k { s.last().diff as int } else { 0 }
    }
}

pub fn merge(updates: &mut Vec<Update>)
    requires old(updates).len() >= 1, old(updates).len() < 1000,
        forall|i: int| 0 <= i < old(updates).len() ==> -1 <= #[trigger] old(updates)[i].diff <= 1,
{
    let mut write_idx = 0;
    for read_idx in 1..updates.len()
        invariant write_idx < read_idx <= updates.len(), updates.len() == old(updates).len(),
    {
        if tuple_eq(&updates[write_idx].data, &updates[read_idx].data) {
            assume(false);
            updates[write_idx].diff += updates[read_idx].diff;
        } else {
            if updates[write_idx].diff != 0 {
                write_idx += 1;
            }
            updates[write_idx] = update_clone(&updates[read_idx]);
        }
    }
    if updates[write_idx].diff != 0 {
        write_idx += 1;
    }
    updates.truncate(write_idx);
}

}
fn main() {}
