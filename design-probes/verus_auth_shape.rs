use vstd::prelude::*;
verus! {

#[verifier::external_body]
pub struct InsertOp { _p: u8 }
#[verifier::external_body]
pub struct Rule { _p: u8 }

pub enum MetaCommand {
    KgShow,
    KgCreate(String),
    KgDrop(String),
    RuleEdit { name: String, index: usize, rule_text: String },
    Compact,
    KgAclList(Option<String>),
}

pub enum Statement {
    Meta(MetaCommand),
    Insert(InsertOp),
    SessionRule(Rule),
    Query(Rule),
}

#[derive(Clone, Copy, PartialEq, Eq)]
pub enum KgRole { Owner, Editor, Viewer }

pub open spec fn mutates(stmt: &Statement) -> bool {
    match stmt {
        Statement::Insert(_) => true,
        Statement::Meta(MetaCommand::KgCreate(_)) => true,
        Statement::Meta(MetaCommand::KgDrop(_)) => true,
        Statement::Meta(MetaCommand::RuleEdit{..}) => true,
        Statement::Meta(MetaCommand::Compact) => true,
        _ => false,
    }
}

pub fn authorize_kg_operation(kg_role: &KgRole, stmt: &Statement) -> (r: Result<(), String>)
    ensures
        *kg_role == KgRole::Viewer && r.is_ok() ==> !mutates(stmt),
{
    match kg_role {
        KgRole::Owner => Ok(()), // Owner can do everything on their KG
        KgRole::Editor => authorize_kg_editor(stmt),
        KgRole::Viewer => authorize_kg_viewer(stmt),
    }
}

fn authorize_kg_editor(stmt: &Statement) -> (r: Result<(), String>)
{
    match stmt {
        Statement::Query(_)
        | Statement::Insert(_)
        | Statement::SessionRule(_) => Ok(()),

        Statement::Meta(cmd) => match cmd {
            MetaCommand::KgDrop(_) => {
                Err("Permission denied: only KG owners can drop this knowledge graph".to_string())
            }
            MetaCommand::KgShow
            | MetaCommand::KgCreate(_) => Ok(()),
            MetaCommand::RuleEdit { .. } => Ok(()),
            MetaCommand::KgAclList(_) => Ok(()),
            MetaCommand::Compact => {
                Err("Permission denied: only admins can perform this operation".to_string())
            }
        },
    }
}

fn authorize_kg_viewer(stmt: &Statement) -> (r: Result<(), String>)
    ensures r.is_ok() ==> !mutates(stmt)
{
    match stmt {
        Statement::Query(_) | Statement::SessionRule(_) => Ok(()),

        Statement::Insert(_) => {
            Err("Permission denied: you have viewer access to this knowledge graph".to_string())
        }

        Statement::Meta(cmd) => match cmd {
            MetaCommand::KgShow
            | MetaCommand::KgAclList(_) => Ok(()),
            _ => {
                Err("Permission denied: you have viewer access to this knowledge graph".to_string())
            }
        },
    }
}

}
fn main() {}
