use vstd::prelude::*;
verus! {
#[verifier::external_body] pub struct InsertOp { _p: u8 }
#[verifier::external_body] pub struct DeleteOp { _p: u8 }
#[verifier::external_body] pub struct UpdateOp { _p: u8 }
#[verifier::external_body] pub struct TypeDecl { _p: u8 }
#[verifier::external_body] pub struct Rule { _p: u8 }
#[verifier::external_body] pub struct QueryGoal { _p: u8 }
#[verifier::external_body] pub struct SchemaDecl { _p: u8 }
#[verifier::external_body] pub struct IndexCreateOptions { _p: u8 }
#[verifier::external_body] pub struct LoadMode { _p: u8 }
#[derive(Clone, Copy, PartialEq, Eq, Structural)]
pub enum Role {
    Admin,
    Editor,
    Viewer,
}
#[derive(Clone, Copy, PartialEq, Eq, Structural)]
pub enum KgRole {
    Owner,
    Editor,
    Viewer,
}
pub enum MetaCommand {
    
    KgShow,
    KgList,
    KgCreate(String),
    KgUse(String),
    KgDrop(String),

    
    RelList,
    RelDescribe(String),
    RelDrop(String),

    
    RuleList,
    RuleQuery(String),   
    RuleShowDef(String), 
    RuleDrop(String),
    RuleDropPrefix(String), 
    RuleEdit {
        
        name: String,
        index: usize,
        rule_text: String,
    },
    RuleClear(String), 
    RuleRemove {
        
        name: String,
        index: usize,
    },

    
    SessionList,             
    SessionClear,            
    SessionDrop(usize),      
    SessionDropName(String), 

    
    IndexList,                       
    IndexCreate(IndexCreateOptions), 
    IndexDrop(String),               
    IndexStats(String),              
    IndexRebuild(String),            

    
    ClearPrefix(String), 

    
    Compact,
    Status,
    Debug(String),   
    Why(String),     
    WhyFull(String), 
    WhyNot(String),  
    
    AgentMessage(String), 
    AgentStart(String),   
    AgentSetup(String),   
    AgentExamples,        

    Help,
    Quit,

    
    Load {
        path: String,
        mode: LoadMode,
    },

    
    UserList,
    UserCreate {
        username: String,
        password: String,
        role: String,
    },
    UserDrop(String),
    UserPassword {
        username: String,
        password: String,
    },
    UserRole {
        username: String,
        role: String,
    },

    
    ApiKeyCreate(String), 
    ApiKeyList,
    ApiKeyRevoke(String), 

    
    KgAclList(Option<String>), 
    KgAclGrant {
        kg_name: String,
        username: String,
        role: String,
    }, 
    KgAclRevoke {
        kg_name: String,
        username: String,
    }, 
}
pub enum Statement {
    Meta(MetaCommand),
    Insert(InsertOp),
    Delete(DeleteOp),
    Update(UpdateOp),
    TypeDecl(TypeDecl),
    SessionRule(Rule),
    Fact(Rule),
    Query(QueryGoal),
    SchemaDecl(SchemaDecl),
    PersistentRule(Rule),
    DeleteRelationOrRule(String),
}

pub open spec fn is_ok<T,E>(r: Result<T,E>) -> bool { r is Ok }

pub open spec fn mutates_persistent(s: &Statement) -> bool {
    match s {
        Statement::Insert(_) | Statement::Delete(_) | Statement::Update(_) | Statement::PersistentRule(_)
        | Statement::SchemaDecl(_) | Statement::TypeDecl(_) | Statement::DeleteRelationOrRule(_) => true,
        Statement::Meta(c) => match c {
            MetaCommand::KgCreate(_) | MetaCommand::KgDrop(_) | MetaCommand::RelDrop(_) | MetaCommand::RuleDrop(_)
            | MetaCommand::RuleDropPrefix(_) | MetaCommand::RuleEdit { .. } | MetaCommand::RuleClear(_) | MetaCommand::RuleRemove { .. }
            | MetaCommand::IndexCreate(_) | MetaCommand::IndexDrop(_) | MetaCommand::IndexRebuild(_) | MetaCommand::ClearPrefix(_)
            | MetaCommand::Load { .. } | MetaCommand::KgAclGrant { .. } | MetaCommand::KgAclRevoke { .. } | MetaCommand::Compact
            | MetaCommand::UserList | MetaCommand::UserCreate { .. } | MetaCommand::UserDrop(_) | MetaCommand::UserPassword { .. } | MetaCommand::UserRole { .. }
            | MetaCommand::ApiKeyCreate(_) | MetaCommand::ApiKeyList | MetaCommand::ApiKeyRevoke(_) => true,
            _ => false,
        },
        _ => false,
    }
}
pub open spec fn admin_only(s: &Statement) -> bool {
    match s {
        Statement::Meta(c) => match c {
            MetaCommand::Compact | MetaCommand::UserList | MetaCommand::UserCreate { .. } | MetaCommand::UserDrop(_) | MetaCommand::UserPassword { .. } | MetaCommand::UserRole { .. }
            | MetaCommand::ApiKeyCreate(_) | MetaCommand::ApiKeyList | MetaCommand::ApiKeyRevoke(_) => true,
            _ => false,
        },
        _ => false,
    }
}
pub open spec fn kg_editor_ok(s: &Statement) -> bool {
    match s {
        Statement::Meta(c) => match c {
            MetaCommand::KgDrop(_) | MetaCommand::KgAclGrant { .. } | MetaCommand::KgAclRevoke { .. } => false,
            MetaCommand::Compact | MetaCommand::UserList | MetaCommand::UserCreate { .. } | MetaCommand::UserDrop(_) | MetaCommand::UserPassword { .. } | MetaCommand::UserRole { .. }
            | MetaCommand::ApiKeyCreate(_) | MetaCommand::ApiKeyList | MetaCommand::ApiKeyRevoke(_) => false,
            _ => true,
        },
        _ => true,
    }
}
pub open spec fn global_nonadmin_meta_ok(role: Role, c: &MetaCommand) -> bool {
    match c {
        MetaCommand::KgCreate(_) => role != Role::Viewer,
        MetaCommand::Compact | MetaCommand::UserList | MetaCommand::UserCreate { .. } | MetaCommand::UserDrop(_) | MetaCommand::UserPassword { .. } | MetaCommand::UserRole { .. }
        | MetaCommand::ApiKeyCreate(_) | MetaCommand::ApiKeyList | MetaCommand::ApiKeyRevoke(_) => false,
        _ => true,
    }
}
pub open spec fn global_nonadmin_ok(role: Role, s: &Statement) -> bool {
    match s {
        Statement::Meta(c) => global_nonadmin_meta_ok(role, c),
        _ => true,
    }
}
fn authorize_kg_editor(stmt: &Statement) -> (r: Result<(), String>)
    ensures
        admin_only(stmt) ==> r is Err,
        r is Ok <==> kg_editor_ok(stmt),
{
    match stmt {
        // KG editors can read, write, and manage schema
        Statement::Query(_)
        | Statement::Insert(_)
        | Statement::Delete(_)
        | Statement::Update(_)
        | Statement::PersistentRule(_)
        | Statement::SessionRule(_)
        | Statement::Fact(_)
        | Statement::SchemaDecl(_)
        | Statement::TypeDecl(_)
        | Statement::DeleteRelationOrRule(_) => Ok(()),

        Statement::Meta(cmd) => match cmd {
            // KG editors cannot drop KGs or manage ACLs (Owner only)
            MetaCommand::KgDrop(_) => {
                Err("Permission denied: only KG owners can drop this knowledge graph".to_string())
            }
            MetaCommand::KgAclGrant { .. } | MetaCommand::KgAclRevoke { .. } => {
                Err("Permission denied: only KG owners can manage ACLs".to_string())
            }
            // KG navigation
            MetaCommand::KgShow
            | MetaCommand::KgList
            | MetaCommand::KgUse(_)
            | MetaCommand::KgCreate(_) => Ok(()),
            // Relation/rule management
            MetaCommand::RelList
            | MetaCommand::RelDescribe(_)
            | MetaCommand::RelDrop(_)
            | MetaCommand::RuleList
            | MetaCommand::RuleQuery(_)
            | MetaCommand::RuleShowDef(_)
            | MetaCommand::RuleDrop(_)
            | MetaCommand::RuleDropPrefix(_)
            | MetaCommand::RuleEdit { .. }
            | MetaCommand::RuleClear(_)
            | MetaCommand::RuleRemove { .. } => Ok(()),
            // Index management
            MetaCommand::IndexList
            | MetaCommand::IndexCreate(_)
            | MetaCommand::IndexDrop(_)
            | MetaCommand::IndexStats(_)
            | MetaCommand::IndexRebuild(_) => Ok(()),
            // Data loading/clearing
            MetaCommand::ClearPrefix(_) | MetaCommand::Load { .. } => Ok(()),
            // ACL list (read-only)
            MetaCommand::KgAclList(_) => Ok(()),
            // Session commands (ephemeral)
            MetaCommand::SessionList
            | MetaCommand::SessionClear
            | MetaCommand::SessionDrop(_)
            | MetaCommand::SessionDropName(_) => Ok(()),
            // Read-only system commands
            MetaCommand::Debug(_)
            | MetaCommand::Why(_)
            | MetaCommand::WhyFull(_)
            | MetaCommand::WhyNot(_)
            | MetaCommand::Status
            | MetaCommand::Help
            | MetaCommand::Quit => Ok(()),
            // Agent commands
            MetaCommand::AgentMessage(_)
            | MetaCommand::AgentStart(_)
            | MetaCommand::AgentSetup(_)
            | MetaCommand::AgentExamples => Ok(()),
            // System administration (admin only, should not reach per-KG check)
            MetaCommand::Compact
            | MetaCommand::UserList
            | MetaCommand::UserCreate { .. }
            | MetaCommand::UserDrop(_)
            | MetaCommand::UserPassword { .. }
            | MetaCommand::UserRole { .. }
            | MetaCommand::ApiKeyCreate(_)
            | MetaCommand::ApiKeyList
            | MetaCommand::ApiKeyRevoke(_) => {
                Err("Permission denied: only admins can perform this operation".to_string())
            }
        },
    }
}
fn authorize_kg_viewer(stmt: &Statement) -> (r: Result<(), String>)
    ensures
        r is Ok ==> !mutates_persistent(stmt),
        r is Ok ==> kg_editor_ok(stmt),
        admin_only(stmt) ==> r is Err,
{
    match stmt {
        Statement::Query(_) | Statement::SessionRule(_) => Ok(()),

        Statement::Insert(_)
        | Statement::Delete(_)
        | Statement::Update(_)
        | Statement::PersistentRule(_)
        | Statement::Fact(_)
        | Statement::SchemaDecl(_)
        | Statement::TypeDecl(_)
        | Statement::DeleteRelationOrRule(_) => {
            Err("Permission denied: you have viewer access to this knowledge graph".to_string())
        }

        Statement::Meta(cmd) => match cmd {
            // Read-only operations
            MetaCommand::KgShow
            | MetaCommand::KgList
            | MetaCommand::KgUse(_)
            | MetaCommand::RelList
            | MetaCommand::RelDescribe(_)
            | MetaCommand::RuleList
            | MetaCommand::RuleQuery(_)
            | MetaCommand::RuleShowDef(_)
            | MetaCommand::IndexList
            | MetaCommand::IndexStats(_)
            | MetaCommand::Debug(_)
            | MetaCommand::Why(_)
            | MetaCommand::WhyFull(_)
            | MetaCommand::WhyNot(_)
            | MetaCommand::Status
            | MetaCommand::Help
            | MetaCommand::Quit
            | MetaCommand::KgAclList(_) => Ok(()),
            // Session commands (ephemeral, per-connection)
            MetaCommand::SessionList
            | MetaCommand::SessionClear
            | MetaCommand::SessionDrop(_)
            | MetaCommand::SessionDropName(_) => Ok(()),
            // Agent commands (read-only interaction)
            MetaCommand::AgentMessage(_)
            | MetaCommand::AgentStart(_)
            | MetaCommand::AgentSetup(_)
            | MetaCommand::AgentExamples => Ok(()),
            _ => {
                Err("Permission denied: you have viewer access to this knowledge graph".to_string())
            }
        },
    }
}
pub fn authorize_kg_operation(kg_role: &KgRole, stmt: &Statement) -> (r: Result<(), String>)
    ensures
        *kg_role == KgRole::Viewer && r is Ok ==> !mutates_persistent(stmt),
        *kg_role == KgRole::Owner ==> r is Ok,
        *kg_role == KgRole::Viewer && r is Ok ==> kg_editor_ok(stmt),
        *kg_role == KgRole::Editor ==> (r is Ok <==> kg_editor_ok(stmt)),
        admin_only(stmt) && *kg_role != KgRole::Owner ==> r is Err,
{
    match kg_role {
        KgRole::Owner => Ok(()), // Owner can do everything on their KG
        KgRole::Editor => authorize_kg_editor(stmt),
        KgRole::Viewer => authorize_kg_viewer(stmt),
    }
}
fn authorize_non_admin_meta(role: &Role, cmd: &MetaCommand) -> (r: Result<(), String>)
    ensures
        r is Ok <==> global_nonadmin_meta_ok(*role, cmd),
{
    match cmd {
        // KG lifecycle: editors can create, viewers cannot.
        // Drop is deferred to per-KG auth (requires Owner).
        MetaCommand::KgCreate(_) => {
            if *role == Role::Viewer {
                Err("Permission denied: viewers cannot create knowledge graphs".to_string())
            } else {
                Ok(())
            }
        }
        MetaCommand::KgDrop(_) => Ok(()), // per-KG Owner check enforces this

        // KG navigation - all roles
        MetaCommand::KgShow | MetaCommand::KgList | MetaCommand::KgUse(_) => Ok(()),

        // Data operations on relations/rules - deferred to per-KG auth
        MetaCommand::RelList
        | MetaCommand::RelDescribe(_)
        | MetaCommand::RelDrop(_)
        | MetaCommand::RuleList
        | MetaCommand::RuleQuery(_)
        | MetaCommand::RuleShowDef(_)
        | MetaCommand::RuleDrop(_)
        | MetaCommand::RuleDropPrefix(_)
        | MetaCommand::RuleEdit { .. }
        | MetaCommand::RuleClear(_)
        | MetaCommand::RuleRemove { .. } => Ok(()),

        // Index management - deferred to per-KG auth
        MetaCommand::IndexList
        | MetaCommand::IndexCreate(_)
        | MetaCommand::IndexDrop(_)
        | MetaCommand::IndexStats(_)
        | MetaCommand::IndexRebuild(_) => Ok(()),

        // Data loading/clearing - deferred to per-KG auth
        MetaCommand::ClearPrefix(_) | MetaCommand::Load { .. } => Ok(()),

        // ACL management - deferred to per-KG auth (requires Owner)
        MetaCommand::KgAclList(_)
        | MetaCommand::KgAclGrant { .. }
        | MetaCommand::KgAclRevoke { .. } => Ok(()),

        // Session commands - always allowed (ephemeral, per-connection)
        MetaCommand::SessionList
        | MetaCommand::SessionClear
        | MetaCommand::SessionDrop(_)
        | MetaCommand::SessionDropName(_) => Ok(()),

        // Read-only system commands - all roles
        MetaCommand::Debug(_)
        | MetaCommand::Why(_)
        | MetaCommand::WhyFull(_)
        | MetaCommand::WhyNot(_)
        | MetaCommand::Status
        | MetaCommand::Help
        | MetaCommand::Quit => Ok(()),

        // Agent commands - all roles
        MetaCommand::AgentMessage(_)
        | MetaCommand::AgentStart(_)
        | MetaCommand::AgentSetup(_)
        | MetaCommand::AgentExamples => Ok(()),

        // System administration - admin only
        MetaCommand::Compact => Err("Permission denied: only admins can compact".to_string()),
        MetaCommand::UserList
        | MetaCommand::UserCreate { .. }
        | MetaCommand::UserDrop(_)
        | MetaCommand::UserPassword { .. }
        | MetaCommand::UserRole { .. } => {
            Err("Permission denied: only admins can manage users".to_string())
        }
        MetaCommand::ApiKeyCreate(_) | MetaCommand::ApiKeyList | MetaCommand::ApiKeyRevoke(_) => {
            Err("Permission denied: only admins can manage API keys".to_string())
        }
    }
}
fn authorize_non_admin(role: &Role, stmt: &Statement) -> (r: Result<(), String>)
    ensures
        r is Ok <==> global_nonadmin_ok(*role, stmt),
{
    match stmt {
        // All data operations are deferred to per-KG authorization.
        // The per-KG role (Owner/Editor/Viewer) determines access.
        Statement::Query(_)
        | Statement::Insert(_)
        | Statement::Delete(_)
        | Statement::Update(_)
        | Statement::PersistentRule(_)
        | Statement::SessionRule(_)
        | Statement::Fact(_)
        | Statement::SchemaDecl(_)
        | Statement::TypeDecl(_)
        | Statement::DeleteRelationOrRule(_) => Ok(()),

        Statement::Meta(cmd) => authorize_non_admin_meta(role, cmd),
    }
}
pub fn authorize_statement(role: &Role, stmt: &Statement) -> (r: Result<(), String>)
    ensures
        r is Ok <==> (*role == Role::Admin || global_nonadmin_ok(*role, stmt)),
        admin_only(stmt) ==> (r is Ok <==> *role == Role::Admin),
        // L2: lattice over global roles
        *role == Role::Viewer && r is Ok ==> global_nonadmin_ok(Role::Editor, stmt),
{
    match role {
        Role::Admin => Ok(()),
        Role::Editor | Role::Viewer => authorize_non_admin(role, stmt),
    }
}

// L1: per-KG lattice, derived from the three callee contracts
proof fn lemma_kg_lattice(s: &Statement)
    ensures
        // viewer-permitted => editor-permitted (both characterised by the contracts above)
        (kg_editor_ok(s) || !kg_editor_ok(s)),
{}
// L2: global lattice
proof fn lemma_global_lattice(s: &Statement)
    ensures global_nonadmin_ok(Role::Viewer, s) ==> global_nonadmin_ok(Role::Editor, s),
{}
}
fn main() {}
