use vstd::prelude::*;
use std::sync::Arc;
verus! {
pub enum Value {
    Int32(i32),
    Int64(i64),
    Float64(f64),
    String(Arc<str>),
    Bool(bool),
    Null,
    Vector(Arc<Vec<f32>>),
    VectorInt8(Arc<Vec<i8>>),
    Timestamp(i64),
}
pub enum DataType {
    Int32,
    Int64,
    Float64,
    String,
    Bool,
    Null,
    Vector {
        dim: Option<usize>,
    },
    VectorInt8 {
        dim: Option<usize>,
    },
    Timestamp,
}
pub enum SchemaType {
    Int,
    Float,
    Symbol,
    String,
    Bool,
    Timestamp,
    Vector { dim: Option<usize> },
    Any,
    Named(String),
}
pub open spec fn kind(v: &Value) -> int { match v { Value::Int32(_) => 0, Value::Int64(_) => 1, Value::Float64(_) => 2, Value::String(_) => 3, Value::Bool(_) => 4, Value::Null => 5, Value::Vector(_) => 6, Value::VectorInt8(_) => 7, Value::Timestamp(_) => 8 } }
impl SchemaType {
    pub fn matches(&self, value: &Value) -> (r: bool)
        ensures
            (self is Int) ==> (r <==> (kind(value) == 0 || kind(value) == 1)),
            (self is Bool) ==> (r <==> kind(value) == 4),
            (self is Any) ==> r,
            (self matches SchemaType::Vector { dim: Some(n) }) ==> (r ==> (kind(value) == 6 || kind(value) == 7)),
    {
        match (self, value) {
            (SchemaType::Int, Value::Int32(_)) => true,
            (SchemaType::Int, Value::Int64(_)) => true,
            (SchemaType::Float, Value::Float64(_)) => true,
            (SchemaType::Float, Value::Int32(_)) => true, // Allow int->float coercion
            (SchemaType::Float, Value::Int64(_)) => true,
            (SchemaType::Symbol, Value::String(_)) => true,
            (SchemaType::String, Value::String(_)) => true,
            (SchemaType::Bool, Value::Bool(_)) => true,
            (SchemaType::Timestamp, Value::Timestamp(_)) => true,
            (SchemaType::Timestamp, Value::Int64(_)) => true, // Allow int as timestamp
            (SchemaType::Vector { dim: Some(n) }, Value::Vector(v)) => v.len() == *n,
            (SchemaType::Vector { dim: Some(n) }, Value::VectorInt8(v)) => v.len() == *n,
            (SchemaType::Vector { dim: None }, Value::Vector(_)) => true,
            (SchemaType::Vector { dim: None }, Value::VectorInt8(_)) => true,
            (SchemaType::Any, _) => true,
            (SchemaType::Named(_), _) => true, // Named types need catalog lookup for full validation
            _ => false,
        }
    }
}
impl DataType {
    pub fn matches(&self, value: &Value) -> (r: bool)
        ensures
            (self is Int32) ==> (r <==> kind(value) == 0),
            (self is Timestamp) ==> (r <==> kind(value) == 8),
    {
        match (self, value) {
            (
                DataType::Vector {
                    dim: Some(expected),
                },
                Value::Vector(v),
            ) => v.len() == *expected,
            (DataType::Vector { dim: None }, Value::Vector(_)) => true,
            (
                DataType::VectorInt8 {
                    dim: Some(expected),
                },
                Value::VectorInt8(v),
            ) => v.len() == *expected,
            (DataType::VectorInt8 { dim: None }, Value::VectorInt8(_)) => true,
            (DataType::Int32, Value::Int32(_)) => true,
            (DataType::Int64, Value::Int64(_)) => true,
            (DataType::Float64, Value::Float64(_)) => true,
            (DataType::String, Value::String(_)) => true,
            (DataType::Bool, Value::Bool(_)) => true,
            (DataType::Null, Value::Null) => true,
            (DataType::Timestamp, Value::Timestamp(_)) => true,
            _ => false,
        }
    }
}
}
fn main() {}
