// ===== appended to src/storage/persist/consolidate.rs =====
#[cfg(kani)]
mod kprobe {
    use super::*;
    use crate::value::Value;
    fn any_update() -> Update {
        let d: i64 = kani::any();
        kani::assume(d >= 0 && d < 3);
        let diff: i64 = kani::any();
        kani::assume(diff == 1 || diff == -1);
        Update { data: Tuple::new(vec![Value::Int64(d)]), time: kani::any(), diff }
    }
    #[cfg(any())]
    fn p1_consolidate_current() {
        let mut ups = vec![any_update(), any_update(), any_update()];
        let orig = ups.clone();
        consolidate_to_current(&mut ups);
        // spec: for each key d in 0..3, sum of diffs preserved; no zero; distinct
        let mut d = 0i64;
        while d < 3 {
            let key = Tuple::new(vec![Value::Int64(d)]);
            let mut s_in = 0i64;
            for u in orig.iter() { if u.data == key { s_in += u.diff; } }
            let mut s_out = 0i64; let mut n = 0;
            for u in ups.iter() { if u.data == key { s_out += u.diff; n += 1; } }
            assert!(s_in == s_out);
            assert!(n <= 1);
            assert!(n == 0 || s_out != 0);
            d += 1;
        }
    }
}
// ===== appended to src/protocol/handler.rs =====
#[cfg(kani)]
mod kprobe {
    use super::*;
    use std::cmp::Ordering;
    fn any_scalar() -> WireValue {
        let k: u8 = kani::any();
        match k % 6 {
            0 => WireValue::Null,
            1 => WireValue::Int32(kani::any()),
            2 => WireValue::Int64(kani::any()),
            3 => WireValue::Float64(kani::any()),
            4 => WireValue::Bool(kani::any()),
            _ => WireValue::Timestamp(kani::any()),
        }
    }
    #[cfg(any())]
    fn p2_wire_cmp_transitive() {
        let a = any_scalar(); let b = any_scalar(); let c = any_scalar();
        let ab = compare_wire_values(Some(&a), Some(&b));
        let bc = compare_wire_values(Some(&b), Some(&c));
        let ac = compare_wire_values(Some(&a), Some(&c));
        if ab != Ordering::Greater && bc != Ordering::Greater { assert!(ac != Ordering::Greater); }
    }
    #[kani::proof]
    fn p2_wire_cmp_antisym() {
        let a = any_scalar(); let b = any_scalar();
        assert!(compare_wire_values(Some(&a), Some(&b)) == compare_wire_values(Some(&b), Some(&a)).reverse());
    }
}
// ===== appended to src/derived_relations.rs =====
#[cfg(kani)]
mod kprobe {
    use super::*;
    fn rule(name: &str, deps: &[&str]) -> CompiledRule {
        CompiledRule { name: name.to_string(), clauses: vec![], dependencies: deps.iter().map(|s| s.to_string()).collect(), is_recursive: false, output_schema: vec![], stratum: 0 }
    }
    #[kani::proof]
    #[kani::unwind(8)]
    fn p4_derived_invalidation() {
        let mut m = DerivedRelationsManager::new();
        m.register_rule(rule("r1", &["b"]));
        m.register_rule(rule("r2", &["r1"]));
        m.set_materialized("r1", vec![]);
        m.set_materialized("r2", vec![]);
        m.notify_base_update("b");
        assert!(m.get_materialized("r1").is_none());
        assert!(m.get_materialized("r2").is_none());
    }
}
// ===== appended to src/code_generator/mod.rs =====
#[cfg(kani)]
mod kprobe {
    use super::*;
    fn leaf() -> IRNode { IRNode::Scan { relation: String::new(), schema: Vec::new() } }
    fn wrap(k: u8, c: IRNode) -> IRNode {
        match k % 4 {
            0 => IRNode::Distinct { input: Box::new(c) },
            1 => IRNode::Map { input: Box::new(c), projection: vec![], output_schema: vec![] },
            2 => IRNode::Aggregate { input: Box::new(c), group_by: vec![], aggregations: vec![], output_schema: vec![] },
            _ => IRNode::Union { inputs: vec![c] },
        }
    }
    fn has_agg(ir: &IRNode) -> bool {
        match ir {
            IRNode::Aggregate { .. } => true,
            IRNode::Distinct { input } | IRNode::Map { input, .. } => has_agg(input),
            IRNode::Union { inputs } => inputs.iter().any(has_agg),
            _ => false,
        }
    }
    #[kani::proof]
    #[kani::unwind(4)]
    fn p5_contains_join_guard() {
        let ir = wrap(kani::any(), wrap(kani::any(), leaf()));
        if !CodeGenerator::contains_join(&ir) { assert!(!has_agg(&ir)); }
    }
}
// ===== appended to src/vector_ops.rs =====
#[cfg(kani)]
mod kprobe {
    use super::*;
    #[kani::proof]
    #[kani::unwind(4)]
    fn p7_cosine_range() {
        let a: [f32; 2] = [kani::any(), kani::any()];
        let b: [f32; 2] = [kani::any(), kani::any()];
        kani::assume(a[0].is_finite() && a[1].is_finite() && b[0].is_finite() && b[1].is_finite());
        let d = cosine_distance(&a, &b);
        assert!(d >= 0.0 && d <= 2.0);
    }
    #[kani::proof]
    #[kani::unwind(4)]
    fn p7_euclid_sym() {
        let a: [f32; 2] = [kani::any(), kani::any()];
        let b: [f32; 2] = [kani::any(), kani::any()];
        kani::assume(a[0].is_finite() && a[1].is_finite() && b[0].is_finite() && b[1].is_finite());
        let d1 = euclidean_distance(&a, &b);
        let d2 = euclidean_distance(&b, &a);
        assert!(d1.to_bits() == d2.to_bits());
        assert!(!(d1 < 0.0));
    }
    fn pc(x: i64) -> u32 { let mut c = 0; let mut k = 0; while k < 4 { if (x >> k) & 1 == 1 { c += 1; } k += 1; } c }
    #[kani::proof]
    #[kani::unwind(12)]
    fn p7_lsh_probes() {
        let bucket: i64 = kani::any();
        let nh: usize = kani::any(); kani::assume(nh <= 3);
        let np: usize = kani::any(); kani::assume(np <= 8);
        let p = lsh_probes(bucket, nh, np);
        assert!(p.len() <= np);
        if np > 0 { assert!(p[0] == bucket); }
        let mut i = 0;
        while i < p.len() { let mut j = i + 1; while j < p.len() { assert!(p[i] != p[j]); assert!(pc(p[i] ^ bucket) <= pc(p[j] ^ bucket)); j += 1; } i += 1; }
    }
}
// ===== appended to src/provenance/unification.rs =====
#[cfg(kani)]
mod kprobe {
    use super::*;
    fn any_term() -> Term {
        let k: u8 = kani::any();
        match k % 4 { 0 => Term::Variable("X".to_string()), 1 => Term::Variable("Y".to_string()), 2 => Term::Constant(kani::any()), _ => Term::Placeholder }
    }
    #[cfg(any())]
    fn p8_unify_head_sound() {
        let head = Atom { relation: "r".to_string(), args: vec![any_term(), any_term()] };
        let t = Tuple::new(vec![Value::Int32(kani::any()), Value::Int32(kani::any())]);
        if let Some(b) = unify_head(&t, &head) {
            for (i, a) in head.args.iter().enumerate() {
                match a {
                    Term::Variable(n) => assert!(b.get(n) == t.get(i)),
                    Term::Constant(c) => assert!(values_equal(&term_to_value(a).unwrap(), t.get(i).unwrap())),
                    _ => {}
                }
            }
        }
    }
}
// ===== appended to src/schema/validator.rs =====
#[cfg(kani)]
mod kprobe {
    use super::*;
    use crate::schema::{ColumnSchema, SchemaType};
    use crate::value::Value;
    fn any_ty() -> SchemaType { let k: u8 = kani::any(); match k % 5 { 0 => SchemaType::Int, 1 => SchemaType::Float, 2 => SchemaType::Bool, 3 => SchemaType::Timestamp, _ => SchemaType::Any } }
    fn any_val() -> Value { let k: u8 = kani::any(); match k % 5 { 0 => Value::Int32(kani::any()), 1 => Value::Int64(kani::any()), 2 => Value::Float64(kani::any()), 3 => Value::Bool(kani::any()), _ => Value::Null } }
    #[kani::proof]
    #[kani::unwind(4)]
    fn p9_validate_batch() {
        let schema = RelationSchema::new("r").with_column(ColumnSchema::new("a", any_ty())).with_column(ColumnSchema::new("b", any_ty()));
        let t1 = Tuple::new(vec![any_val(), any_val()]);
        let t2 = Tuple::new(vec![any_val(), any_val()]);
        let conf = |t: &Tuple| t.arity() == 2 && schema.columns[0].data_type.matches(t.get(0).unwrap()) && schema.columns[1].data_type.matches(t.get(1).unwrap());
        let expect = conf(&t1) && conf(&t2);
        let mut e = ValidationEngine::new();
        let r = e.validate_batch(&schema, &[t1.clone(), t2.clone()]);
        assert!(r.is_ok() == expect);
    }
}
// ===== appended to src/hash_index.rs =====
#[cfg(kani)]
mod kprobe {
    use super::*;
    use crate::value::Value;
    #[kani::proof]
    #[kani::unwind(20)]
    fn p10_hash_index() {
        let mut idx = HashIndex::new(JoinKeySpec::new("e", vec![0]), 4);
        let a: i64 = kani::any(); let b: i64 = kani::any();
        kani::assume(a >= 0 && a < 2 && b >= 0 && b < 2);
        idx.insert(Tuple::new(vec![Value::Int64(a), Value::Int64(10)]));
        idx.insert(Tuple::new(vec![Value::Int64(b), Value::Int64(20)]));
        let key = Tuple::new(vec![Value::Int64(a)]);
        let got = idx.get_with_bloom(&key);
        assert!(got.is_some());
        assert!(got.unwrap().len() == if a == b { 2 } else { 1 });
    }
}
// ===== appended to src/value/arrow_convert.rs =====
#[cfg(kani)]
mod kprobe {
    use super::*;
    #[kani::proof]
    #[kani::unwind(6)]
    fn p6_arrow_roundtrip() {
        let v: i64 = kani::any();
        let t = Tuple::new(vec![Value::Int64(v)]);
        let schema = infer_schema_from_tuples(&[t.clone()], &["c".to_string()]);
        let rb = tuples_to_record_batch(&[t.clone()], &schema).unwrap();
        let (back, _) = record_batch_to_tuples(&rb).unwrap();
        assert!(back.len() == 1 && back[0] == t);
    }
}
