use vstd::prelude::*;
use std::hash::Hash;
verus! {

pub struct BloomFilter {
    bits: Vec<u64>,
    num_bits: usize,
    num_hashes: usize,
    count: usize,
}

pub uninterp spec fn spec_hash_pair<T>(value: &T) -> (u64, u64);

pub open spec fn add_u64(a: u64, b: u64) -> u64 { ((a as int + b as int) % 0x1_0000_0000_0000_0000) as u64 }
pub open spec fn mul_u64(a: u64, b: u64) -> u64 { ((a as int * b as int) % 0x1_0000_0000_0000_0000) as u64 }

pub open spec fn bidx(num_bits: usize, h1: u64, h2: u64, i: int) -> int {
    (add_u64(h1, mul_u64(i as u64, h2)) % (num_bits as u64)) as int
}
pub open spec fn bit_set(bits: Seq<u64>, idx: int) -> bool {
    0 <= idx / 64 < bits.len() && (bits[idx / 64] & (1u64 << ((idx % 64) as u64))) != 0
}
pub open spec fn covers_s(bits: Seq<u64>, num_bits: usize, k: usize, h1: u64, h2: u64) -> bool {
    forall|i: int| 0 <= i < k ==> bit_set(bits, #[trigger] bidx(num_bits, h1, h2, i))
}

proof fn lemma_or_sets(w: u64, o: u64)
    requires o < 64
    ensures ((w | (1u64 << o)) & (1u64 << o)) != 0,
{
    assert(((w | (1u64 << o)) & (1u64 << o)) != 0) by (bit_vector) requires o < 64;
}
proof fn lemma_or_keeps(w: u64, o: u64, p: u64)
    requires o < 64, p < 64, (w & (1u64 << p)) != 0
    ensures ((w | (1u64 << o)) & (1u64 << p)) != 0,
{
    assert(((w | (1u64 << o)) & (1u64 << p)) != 0) by (bit_vector) requires o < 64, p < 64, (w & (1u64 << p)) != 0;
}
proof fn lemma_set_bit(prev: Seq<u64>, w: int, o: u64)
    requires 0 <= w < prev.len(), o < 64
    ensures
        bit_set(prev.update(w, prev[w] | (1u64 << o)), w * 64 + o as int),
        forall|idx: int| bit_set(prev, idx) ==> bit_set(prev.update(w, prev[w] | (1u64 << o)), idx),
{
    let next = prev.update(w, prev[w] | (1u64 << o));
    lemma_or_sets(prev[w], o);
    assert((w * 64 + o as int) / 64 == w && (w * 64 + o as int) % 64 == o as int);
    assert forall|idx: int| bit_set(prev, idx) implies bit_set(next, idx) by {
        if idx / 64 == w {
            lemma_or_keeps(prev[w], o, (idx % 64) as u64);
        }
    }
}

impl BloomFilter {
    pub closed spec fn wf(&self) -> bool {
        &&& self.bits.len() * 64 == self.num_bits
        &&& self.num_bits >= 64
        &&& self.num_hashes >= 1
    }
    pub closed spec fn count_ok(&self) -> bool { self.count < usize::MAX }
    pub closed spec fn covers(&self, h1: u64, h2: u64) -> bool {
        covers_s(self.bits@, self.num_bits, self.num_hashes, h1, h2)
    }
    pub closed spec fn same_shape(&self, o: &BloomFilter) -> bool {
        self.num_bits == o.num_bits && self.num_hashes == o.num_hashes && self.bits.len() == o.bits.len()
    }

    #[verifier::external_body]
    fn hash_pair<T: Hash>(&self, value: &T) -> (r: (u64, u64))
        ensures r == spec_hash_pair(value)
    {
        unimplemented!()
    }

    fn get_bit_index(&self, h1: u64, h2: u64, i: usize) -> (r: usize)
        requires self.wf()
        ensures r < self.num_bits, r as int == bidx(self.num_bits, h1, h2, i as int)
    {
        (h1.wrapping_add((i as u64).wrapping_mul(h2)) % (self.num_bits as u64)) as usize
    }

    pub fn insert<T: Hash>(&mut self, value: &T)
        requires old(self).wf(), old(self).count_ok()
        ensures final(self).wf(), final(self).same_shape(old(self)),
            final(self).covers(spec_hash_pair(value).0, spec_hash_pair(value).1),
            forall|a: u64, b: u64| old(self).covers(a, b) ==> final(self).covers(a, b),
    {
        let (h1, h2) = self.hash_pair(value);

        for i in 0..self.num_hashes
            invariant self.wf(), self.same_shape(old(self)), self.count == old(self).count,
                forall|j: int| 0 <= j < i ==> bit_set(self.bits@, #[trigger] bidx(self.num_bits, h1, h2, j)),
                forall|idx: int| bit_set(old(self).bits@, idx) ==> bit_set(self.bits@, idx),
        {
            let bit_idx = self.get_bit_index(h1, h2, i);
            let word_idx = bit_idx / 64;
            let bit_offset = bit_idx % 64;
            let ghost prev = self.bits@;
            self.bits[word_idx] |= 1u64 << bit_offset;
            proof {
                lemma_set_bit(prev, word_idx as int, bit_offset as u64);
                assert(self.bits@ == prev.update(word_idx as int, prev[word_idx as int] | (1u64 << (bit_offset as u64))));
                assert(word_idx as int * 64 + bit_offset as int == bit_idx as int);
            }
        }

        self.count += 1;
    }

    pub fn might_contain<T: Hash>(&self, value: &T) -> (r: bool)
        requires self.wf()
        ensures r == self.covers(spec_hash_pair(value).0, spec_hash_pair(value).1)
    {
        let (h1, h2) = self.hash_pair(value);

        for i in 0..self.num_hashes
            invariant self.wf(), (h1, h2) == spec_hash_pair(value),
                forall|j: int| 0 <= j < i ==> bit_set(self.bits@, #[trigger] bidx(self.num_bits, h1, h2, j)),
        {
            let bit_idx = self.get_bit_index(h1, h2, i);
            let word_idx = bit_idx / 64;
            let bit_offset = bit_idx % 64;

            if (self.bits[word_idx] & (1u64 << bit_offset)) == 0 {
                proof {
                    assert(bit_idx as int == bidx(self.num_bits, h1, h2, i as int));
                    assert(bit_idx as int / 64 == word_idx as int && (bit_idx as int % 64) as u64 == bit_offset as u64);
                    assert((1u64 << bit_offset) == (1u64 << (bit_offset as u64)));
                    assert((self.bits@[word_idx as int] & (1u64 << (bit_offset as u64))) == 0);
                    assert(!bit_set(self.bits@, bit_idx as int));
                    assert(!bit_set(self.bits@, bidx(self.num_bits, h1, h2, i as int)));
                    assert(0 <= i < self.num_hashes);
                    assert(h1 == spec_hash_pair(value).0 && h2 == spec_hash_pair(value).1);
                    assert(!covers_s(self.bits@, self.num_bits, self.num_hashes, h1, h2));
                }
                assert(!self.covers(spec_hash_pair(value).0, spec_hash_pair(value).1));
                return false; // Definitely not present
            }
        }

        true // Might be present
    }
}

}
fn main() {}
