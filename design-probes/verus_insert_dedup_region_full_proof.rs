use vstd::prelude::*;
use vstd::std_specs::iter::IteratorSpec;
verus! {

#[verifier::external_body]
pub struct Tuple { _p: u8 }
pub uninterp spec fn tv(t: &Tuple) -> int;

impl PartialEq for Tuple {
    #[verifier::external_body]
    fn eq(&self, other: &Self) -> (r: bool)
        ensures r == (tv(self) == tv(other))
    { unimplemented!() }
}
impl Clone for Tuple {
    #[verifier::external_body]
    fn clone(&self) -> (r: Self)
        ensures tv(&r) == tv(self)
    { unimplemented!() }
}

pub open spec fn occurs(s: Seq<Tuple>, k: int) -> bool { exists|i: int| 0 <= i < s.len() && tv(&s[i]) == k }
pub open spec fn nodup(s: Seq<Tuple>) -> bool { forall|i: int, j: int| 0 <= i < j < s.len() ==> tv(&s[i]) != tv(&s[j]) }

// assumed contract of the standard library: slice::contains is membership under PartialEq
pub uninterp spec fn spec_eq<T>(a: &T, b: &T) -> bool;
pub assume_specification<T: PartialEq>[ <[T]>::contains ](s: &[T], x: &T) -> (r: bool)
    ensures r == exists|i: int| 0 <= i < s@.len() && #[trigger] spec_eq(&s@[i], x);
// assumed: spec_eq on Tuple is the PartialEq given above
#[verifier::external_body]
pub broadcast proof fn axiom_spec_eq_tuple(a: &Tuple, b: &Tuple)
    ensures #[trigger] spec_eq(a, b) == (tv(a) == tv(b))
{}



proof fn lemma_occurs_push(s: Seq<Tuple>, t: Tuple, k: int)
    ensures occurs(s.push(t), k) <==> (occurs(s, k) || tv(&t) == k)
{
    let sp = s.push(t);
    if occurs(sp, k) {
        let i = choose|i: int| 0 <= i < sp.len() && tv(&sp[i]) == k;
        if i < s.len() { assert(tv(&s[i]) == k); } else { assert(sp[i] == t); }
    }
    if occurs(s, k) {
        let i = choose|i: int| 0 <= i < s.len() && tv(&s[i]) == k;
        assert(tv(&sp[i]) == k);
    }
    if tv(&t) == k { assert(tv(&sp[s.len() as int]) == k); }
}

fn region(existing_tuples: &mut Vec<Tuple>, tuples: Vec<Tuple>) -> (r: (usize, usize, Vec<Tuple>))
    requires nodup(old(existing_tuples)@), old(existing_tuples).len() + tuples.len() < usize::MAX,
    ensures
        nodup(final(existing_tuples)@),
        // frame: nothing removed or reordered
        final(existing_tuples).len() == old(existing_tuples).len() + r.0,
        forall|i: int| 0 <= i < old(existing_tuples).len() ==> tv(&final(existing_tuples)[i]) == tv(&old(existing_tuples)[i]),
        // content: old ∪ batch
        forall|k: int| occurs(final(existing_tuples)@, k) <==> (occurs(old(existing_tuples)@, k) || occurs(tuples@, k)),
        // report: new + duplicates = batch size; the new ones are exactly what was appended
        r.0 + r.1 == tuples.len(),
        r.2.len() == r.0,
        forall|i: int| 0 <= i < r.0 ==> tv(&r.2[i]) == tv(&final(existing_tuples)[old(existing_tuples).len() + i]),
{
    broadcast use axiom_spec_eq_tuple;
    let mut new_count = 0;
    let mut dup_count = 0;
    let mut new_tuples_for_dd = Vec::new();
    let ghost e0 = existing_tuples@;
    let ghost batch = tuples@;
    proof { assert(batch.subrange(0, 0).len() == 0); assert(forall|k: int| !occurs(batch.subrange(0, 0), k)); assert(forall|k: int| occurs(existing_tuples@, k) <==> (occurs(e0, k) || occurs(batch.subrange(0, 0), k))); }
    for tuple in it: tuples
        invariant
            it.history@ + it.iter.remaining() == batch, it.history@.len() == it.index@,
            nodup(existing_tuples@),
            existing_tuples.len() == e0.len() + new_count, new_count + dup_count == it.index@, it.index@ <= batch.len(),
            e0.len() + batch.len() < usize::MAX,
            forall|i: int| 0 <= i < e0.len() ==> tv(&existing_tuples[i]) == tv(&e0[i]),
            new_tuples_for_dd.len() == new_count,
            forall|i: int| 0 <= i < new_count ==> tv(&new_tuples_for_dd[i]) == tv(&existing_tuples[e0.len() + i]),
            forall|k: int| #![trigger occurs(existing_tuples@, k)] occurs(existing_tuples@, k) <==> (occurs(e0, k) || occurs(batch.subrange(0, it.index@), k)),
    {
        let ghost before = existing_tuples@;
        let ghost hist = batch.subrange(0, it.index@);
        let ghost idx = it.index@;
        let ghost kt = tv(&tuple);
        let ghost gt = tuple;
        proof { assert(tuple == batch[it.index@]); assert(forall|k: int| occurs(before, k) <==> (occurs(e0, k) || occurs(hist, k))); }
        if existing_tuples.contains(&tuple) {
            proof {
                assert(exists|i: int| 0 <= i < existing_tuples@.len() && #[trigger] spec_eq(&existing_tuples@[i], &tuple));
                let wi = choose|i: int| 0 <= i < existing_tuples@.len() && #[trigger] spec_eq(&existing_tuples@[i], &tuple);
                axiom_spec_eq_tuple(&existing_tuples@[wi], &tuple);
                assert(tv(&before[wi]) == kt);
            }
            dup_count += 1;
            proof {
                assert(occurs(before, kt));
                assert forall|k: int| occurs(existing_tuples@, k) <==> (occurs(e0, k) || occurs(hist.push(tuple), k)) by {
                    lemma_occurs_push(hist, tuple, k);
                    assert(occurs(before, k) <==> (occurs(e0, k) || occurs(hist, k)));
                    assert(existing_tuples@ == before);
                }
                assert(batch.subrange(0, idx + 1) == hist.push(tuple));
                assert(forall|k: int| #![trigger occurs(existing_tuples@, k)] occurs(existing_tuples@, k) <==> (occurs(e0, k) || occurs(batch.subrange(0, idx + 1), k)));
            }
        } else {
            proof {
                assert forall|i: int| 0 <= i < before.len() implies tv(&before[i]) != kt by { assert(!spec_eq(&existing_tuples@[i], &tuple)); axiom_spec_eq_tuple(&existing_tuples@[i], &tuple); }
            }
            new_tuples_for_dd.push(tuple.clone());
            existing_tuples.push(tuple);
            new_count += 1;
            proof {
                assert(!occurs(before, kt));
                assert(existing_tuples@ == before.push(gt));
                assert forall|i: int, j: int| 0 <= i < j < existing_tuples.len() implies tv(&existing_tuples[i]) != tv(&existing_tuples[j]) by {
                    if j == before.len() { assert(tv(&before[i]) != kt); }
                }
                assert forall|k: int| occurs(existing_tuples@, k) <==> (occurs(e0, k) || occurs(hist.push(gt), k)) by {
                    lemma_occurs_push(hist, gt, k);
                    lemma_occurs_push(before, gt, k);
                    assert(occurs(before, k) <==> (occurs(e0, k) || occurs(hist, k)));
                }
                assert(batch.subrange(0, idx + 1) == hist.push(gt));
                assert forall|k: int| #![trigger occurs(existing_tuples@, k)] occurs(existing_tuples@, k) <==> (occurs(e0, k) || occurs(batch.subrange(0, idx + 1), k)) by {
                    lemma_occurs_push(hist, gt, k);
                    lemma_occurs_push(before, gt, k);
                    assert(occurs(before, k) <==> (occurs(e0, k) || occurs(hist, k)));
                    assert(occurs(batch.subrange(0, idx + 1), k) == occurs(hist.push(gt), k));
                }
            }
        }
    }
    proof { assert(batch.subrange(0, batch.len() as int) == batch); }
    (new_count, dup_count, new_tuples_for_dd)
}
}
fn main() {}
