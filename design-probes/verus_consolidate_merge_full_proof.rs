use vstd::prelude::*;
verus! {

#[verifier::external_body]
pub struct Tuple { _p: u8 }
pub uninterp spec fn tv(t: &Tuple) -> int;

impl PartialEq for Tuple {
    #[verifier::external_body]
    fn eq(&self, other: &Self) -> (r: bool)
        ensures r == (tv(self) == tv(other))
    { unimplemented!() }
}

pub struct Update {
    pub data: Tuple,
    pub time: u64,
    pub diff: i64,
}
impl Clone for Update {
    #[verifier::external_body]
    fn clone(&self) -> (r: Self)
        ensures tv(&r.data) == tv(&self.data), r.time == self.time, r.diff == self.diff
    { unimplemented!() }
}

// ---------- specification ----------
pub open spec fn key(s: Seq<Update>, i: int) -> int { tv(&s[i].data) }

/// net multiplicity of key k in the first n entries of s
pub open spec fn net(s: Seq<Update>, n: int, k: int) -> int
    decreases n
{
    if n <= 0 { 0 } else { net(s, n - 1, k) + if key(s, n - 1) == k { s[n - 1].diff as int } else { 0 } }
}

/// equal keys are adjacent (what sort_by establishes, given C31)
pub open spec fn grouped(s: Seq<Update>) -> bool {
    forall|i: int, j: int, m: int| 0 <= i <= j <= m < s.len() && key(s, i) == key(s, m) ==> key(s, j) == key(s, i)
}
pub open spec fn same_at(a: Seq<Update>, b: Seq<Update>, i: int) -> bool { key(a, i) == key(b, i) && a[i].diff == b[i].diff }
pub open spec fn small_diffs(s: Seq<Update>) -> bool {
    forall|i: int| 0 <= i < s.len() ==> -1 <= #[trigger] s[i].diff <= 1
}

proof fn lemma_net_bound(s: Seq<Update>, n: int, k: int)
    requires small_diffs(s), 0 <= n <= s.len()
    ensures -n <= net(s, n, k) <= n
    decreases n
{
    if n > 0 { lemma_net_bound(s, n - 1, k); }
}
proof fn lemma_net_absent(s: Seq<Update>, n: int, k: int)
    requires 0 <= n <= s.len(), forall|i: int| 0 <= i < n ==> key(s, i) != k
    ensures net(s, n, k) == 0
    decreases n
{
    if n > 0 { lemma_net_absent(s, n - 1, k); }
}
proof fn lemma_net_ext(a: Seq<Update>, b: Seq<Update>, n: int, k: int)
    requires 0 <= n <= a.len(), n <= b.len(),
        forall|i: int| 0 <= i < n ==> key(a, i) == key(b, i) && a[i].diff == b[i].diff
    ensures net(a, n, k) == net(b, n, k)
    decreases n
{
    if n > 0 { lemma_net_ext(a, b, n - 1, k); }
}

// ---------- the region of consolidate_to_current after sort_by ----------
pub fn merge_region(updates: &mut Vec<Update>)
    requires
        old(updates).len() >= 1, old(updates).len() < 0x4000_0000_0000_0000,
        grouped(old(updates)@), small_diffs(old(updates)@),
    ensures
        // no key twice, no zero multiplicity, net multiplicity of every key preserved
        forall|i: int, j: int| 0 <= i < j < final(updates).len() ==> key(final(updates)@, i) != key(final(updates)@, j),
        forall|i: int| 0 <= i < final(updates).len() ==> #[trigger] final(updates)[i].diff != 0,
        forall|k: int| net(final(updates)@, final(updates).len() as int, k) == net(old(updates)@, old(updates).len() as int, k),
{
    let ghost orig = updates@;
    let ghost n = updates.len() as int;
    let ghost mut rs: int = 0;
    let ghost mut rd: int = 1;   // start of the current run of equal keys in orig
    let mut write_idx = 0;
    proof {
        assert(net(orig, 1, key(orig, 0)) == net(orig, 0, key(orig, 0)) + orig[0].diff as int);
        assert(net(orig, 0, key(orig, 0)) == 0);
        assert forall|k: int| k != key(orig, 0) implies net(updates@, 0, k) == net(orig, 1, k) by { assert(net(orig, 1, k) == net(orig, 0, k) + 0); assert(net(orig, 0, k) == 0); assert(net(updates@, 0, k) == 0); }
    }
    for read_idx in it: 1..updates.len()
        invariant
            it.iter.end == n, rd == read_idx as int,
            updates.len() == n, n == orig.len(), n < 0x4000_0000_0000_0000,
            grouped(orig), small_diffs(orig),
            write_idx < read_idx <= n,
            0 <= rs < read_idx, write_idx <= rs,
            // untouched suffix
            forall|i: int| read_idx <= i < n ==> #[trigger] same_at(updates@, orig, i),
            // current run
            forall|p: int| rs <= p < read_idx ==> key(orig, p) == key(updates@, write_idx as int),
            rs > 0 ==> key(orig, rs - 1) != key(updates@, write_idx as int),
            updates[write_idx as int].diff as int == net(orig, read_idx as int, key(updates@, write_idx as int)),
            // finalized prefix
            forall|i: int| 0 <= i < write_idx ==> #[trigger] updates[i].diff != 0,
            forall|i: int, j: int| 0 <= i < j < write_idx ==> key(updates@, i) != key(updates@, j),
            forall|i: int| 0 <= i < write_idx ==> exists|p: int| 0 <= p < rs && key(orig, p) == #[trigger] key(updates@, i),
            forall|k: int| #![trigger net(updates@, write_idx as int, k)] k != key(updates@, write_idx as int) ==> net(updates@, write_idx as int, k) == net(orig, read_idx as int, k),
    {
        proof { lemma_net_bound(orig, read_idx as int, key(updates@, write_idx as int)); }
        assert(forall|k: int| k != key(updates@, write_idx as int) ==> net(updates@, write_idx as int, k) == net(orig, read_idx as int, k));
        assert(write_idx < read_idx);
        assert(updates[write_idx as int].diff as int == net(orig, read_idx as int, key(updates@, write_idx as int)));
        assert(forall|i: int| 0 <= i < write_idx ==> #[trigger] updates[i].diff != 0);
        let ghost pre = updates@;
        assert(forall|k: int| k != key(pre, write_idx as int) ==> net(pre, write_idx as int, k) == net(orig, read_idx as int, k));
        if updates[write_idx].data == updates[read_idx].data {
            // Same data - sum the diffs
            let ghost before = updates@;
            let ghost kw = key(before, write_idx as int);
            proof {
                assert(-1 <= orig[read_idx as int].diff <= 1);
                assert(same_at(before, orig, read_idx as int));
                assert(before[read_idx as int].diff == orig[read_idx as int].diff);
                assert(key(orig, read_idx as int) == kw);
            }
            updates[write_idx].diff += updates[read_idx].diff;
            proof {
                let w = write_idx as int; let r = read_idx as int;
                assert(updates@.len() == before.len());
                assert(forall|i: int| 0 <= i < n && i != w ==> updates@[i] == before[i]);
                assert(key(updates@, w) == kw);
                assert(updates[w].diff == before[w].diff + before[r].diff);
                assert forall|i: int| r + 1 <= i < n implies #[trigger] same_at(updates@, orig, i) by { assert(same_at(before, orig, i)); assert(updates@[i] == before[i]); }
                assert forall|i: int, j: int| 0 <= i < j < w implies key(updates@, i) != key(updates@, j) by { assert(key(before, i) != key(before, j)); }
                assert forall|i: int| 0 <= i < w implies #[trigger] updates[i].diff != 0 by { assert(before[i].diff != 0); }
                assert(net(orig, r + 1, kw) == net(orig, r, kw) + orig[r].diff as int);
                assert forall|k: int| k != kw implies net(updates@, w, k) == net(orig, r + 1, k) by {
                    assert forall|i: int| 0 <= i < w implies key(updates@, i) == key(before, i) && updates@[i].diff == before[i].diff by { assert(updates@[i] == before[i]); }
                    lemma_net_ext(updates@, before, w, k);
                    assert(net(updates@, w, k) == net(before, w, k));
                    assert(before == pre);
                    assert(k != key(pre, w));
                    assert(net(pre, w, k) == net(orig, r, k));
                    assert(net(before, w, k) == net(orig, r, k));
                    assert(key(orig, r) == kw);
                    assert(net(orig, r + 1, k) == net(orig, r, k) + 0);
                }
                assert forall|i: int| 0 <= i < w implies exists|p: int| 0 <= p < rs && key(orig, p) == #[trigger] key(updates@, i) by {
                    assert(key(updates@, i) == key(before, i));
                    let p = choose|p: int| 0 <= p < rs && key(orig, p) == key(before, i);
                    assert(0 <= p < rs && key(orig, p) == key(updates@, i));
                }
            }
            proof { rd = rd + 1; }
        } else {
            // Different - move to next write position if current is non-zero
            let ghost before = updates@;
            let ghost w0 = write_idx as int;
            let ghost r = read_idx as int;
            let ghost kw = key(before, w0);
            let ghost knew = key(orig, r);
            proof {
                assert(same_at(before, orig, r));
                assert(kw != knew);
                assert(key(orig, r - 1) == kw);
                // kw does not occur in the finalized prefix
                assert forall|i: int| 0 <= i < w0 implies key(before, i) != kw by {
                    let p = choose|p: int| 0 <= p < rs && key(orig, p) == key(before, i);
                    if key(orig, p) == kw {
                        assert(key(orig, rs) == kw);
                        assert(0 <= p <= rs - 1 <= rs < orig.len());
                        assert(key(orig, rs - 1) == key(orig, p));
                    }
                }
                lemma_net_absent(before, w0, kw);
                // knew does not occur in orig[0..r)
                assert forall|p: int| 0 <= p < r implies key(orig, p) != knew by {
                    if key(orig, p) == knew {
                        assert(0 <= p <= r - 1 <= r < orig.len());
                        assert(key(orig, r - 1) == key(orig, p));
                    }
                }
                lemma_net_absent(orig, r, knew);
                assert(net(orig, r + 1, knew) == net(orig, r, knew) + orig[r].diff as int);
            }
            if updates[write_idx].diff != 0 {
                write_idx += 1;
            }
            // Copy the current read element to the write position
            updates[write_idx] = updates[read_idx].clone();
            proof {
                let w1 = write_idx as int;
                assert(updates@.len() == before.len());
                assert(forall|i: int| 0 <= i < n && i != w1 ==> updates@[i] == before[i]);
                assert(key(updates@, w1) == knew);
                assert(updates[w1].diff == orig[r].diff);
                let old_rs = rs;
                rs = r;
                assert forall|i: int| r + 1 <= i < n implies #[trigger] same_at(updates@, orig, i) by { assert(same_at(before, orig, i)); assert(updates@[i] == before[i]); }
                assert forall|i: int| 0 <= i < w1 implies #[trigger] updates[i].diff != 0 by { assert(updates@[i] == before[i]); }
                assert forall|i: int| 0 <= i < w1 implies exists|p: int| 0 <= p < rs && key(orig, p) == #[trigger] key(updates@, i) by {
                    assert(updates@[i] == before[i]);
                    if i < w0 {
                        let p = choose|p: int| 0 <= p < old_rs && key(orig, p) == key(before, i);
                        assert(0 <= p < rs && key(orig, p) == key(updates@, i));
                    } else {
                        assert(i == w0);
                        assert(0 <= old_rs < rs && key(orig, old_rs) == key(updates@, i));
                    }
                }
                assert forall|i: int, j: int| 0 <= i < j < w1 implies key(updates@, i) != key(updates@, j) by {
                    assert(updates@[i] == before[i]); assert(updates@[j] == before[j]);
                    if j < w0 { assert(key(before, i) != key(before, j)); } else { assert(key(before, i) != kw); }
                }
                assert forall|k: int| k != knew implies net(updates@, w1, k) == net(orig, r + 1, k) by {
                    assert forall|i: int| 0 <= i < w0 implies key(updates@, i) == key(before, i) && updates@[i].diff == before[i].diff by { assert(updates@[i] == before[i]); }
                    lemma_net_ext(updates@, before, w0, k);
                    assert(net(orig, r + 1, k) == net(orig, r, k) + 0);
                    if w1 == w0 + 1 {
                        assert(updates@[w0] == before[w0]);
                        assert(net(updates@, w0 + 1, k) == net(updates@, w0, k) + if key(updates@, w0) == k { updates@[w0].diff as int } else { 0 });
                        if k == kw {
                            assert(net(before, w0, kw) == 0);
                        } else {
                            assert(net(before, w0, k) == net(orig, r, k));
                        }
                    } else {
                        assert(w1 == w0);
                        if k == kw {
                            assert(net(before, w0, kw) == 0);
                            assert(before[w0].diff == 0);
                        } else {
                            assert(net(before, w0, k) == net(orig, r, k));
                        }
                    }
                }
                rd = rd + 1;
            }
        }
    }

    // Keep the last element if it has non-zero diff
    let ghost before = updates@;
    let ghost w0 = write_idx as int;
    let ghost kw = key(before, w0);
    proof {
        assert(rd == n);
        assert forall|i: int| 0 <= i < w0 implies key(before, i) != kw by {
            let p = choose|p: int| 0 <= p < rs && key(orig, p) == key(before, i);
            if key(orig, p) == kw {
                assert(key(orig, rs) == kw);
                assert(0 <= p <= rs - 1 <= rs < orig.len());
                assert(key(orig, rs - 1) == key(orig, p));
            }
        }
        lemma_net_absent(before, w0, kw);
    }
    if updates[write_idx].diff != 0 {
        write_idx += 1;
    }

    updates.truncate(write_idx);
    proof {
        let w1 = write_idx as int;
        assert(updates@.len() == w1);
        assert(forall|i: int| 0 <= i < w1 ==> updates@[i] == before[i]);
        assert forall|i: int| 0 <= i < updates.len() implies #[trigger] updates[i].diff != 0 by { assert(updates@[i] == before[i]); }
        assert forall|i: int, j: int| 0 <= i < j < updates.len() implies key(updates@, i) != key(updates@, j) by {
            assert(updates@[i] == before[i]); assert(updates@[j] == before[j]);
            if j < w0 { assert(key(before, i) != key(before, j)); } else { assert(key(before, i) != kw); }
        }
        assert forall|k: int| net(updates@, updates.len() as int, k) == net(orig, n, k) by {
            assert forall|i: int| 0 <= i < w0 implies key(updates@, i) == key(before, i) && updates@[i].diff == before[i].diff by { assert(updates@[i] == before[i]); }
            lemma_net_ext(updates@, before, w0, k);
            if w1 == w0 + 1 {
                assert(updates@[w0] == before[w0]);
                assert(net(updates@, w0 + 1, k) == net(updates@, w0, k) + if key(updates@, w0) == k { updates@[w0].diff as int } else { 0 });
                if k == kw { assert(net(before, w0, kw) == 0); } else { assert(net(before, w0, k) == net(orig, n, k)); }
            } else {
                assert(w1 == w0);
                if k == kw { assert(net(before, w0, kw) == 0); assert(before[w0].diff == 0); } else { assert(net(before, w0, k) == net(orig, n, k)); }
            }
        }
    }
}

}
fn main() {}
